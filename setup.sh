#!/bin/bash
# Build the fact-extraction driver (the only compiled component) from files on disk, offline.
set -e
cd "$(dirname "$0")/driver"
CARGO_NET_OFFLINE=true cargo +nightly build --release --offline
cd ..
python3 -m py_compile check rules/*.py
echo "setup ok"
