#!/usr/bin/env python3
"""Rebase a stored patch over a fix: commit by applying the patch's own line replacements textually on HEAD:
every hunk is reduced to (removed lines -> added lines) blocks; a block whose removed text is found verbatim in HEAD's file is
applied; otherwise the block is retried with the fix's substitutions (given as old=>new pairs) applied to both sides.
usage: rebase_text.py <patch> [old=>new ...]"""
import os, re, subprocess, sys, shutil
patch = os.path.abspath(sys.argv[1]); subs = [tuple(a.split('=>', 1)) for a in sys.argv[2:]]
head = subprocess.run('git -C /repo rev-parse --short HEAD', shell=True, stdout=subprocess.PIPE, text=True).stdout.strip()
files = {}
cur = None
blocks = []
rem, add = [], []
def flush():
    global rem, add
    if rem or add:
        blocks.append((cur, rem, add))
    rem, add = [], []
for l in open(patch).read().split('\n'):
    if l.startswith('+++ b/'):
        flush(); cur = l[6:].strip(); continue
    if l.startswith('--- ') or l.startswith('diff ') or l.startswith('index '):
        flush(); continue
    if l.startswith('@@'):
        flush(); continue
    if l.startswith('-'):
        if add: flush()
        rem.append(l[1:])
    elif l.startswith('+'):
        add.append(l[1:])
    else:
        flush()
flush()
wt = '/tmp/asv-rebase-t'
subprocess.run('git -C /repo worktree remove --force %s' % wt, shell=True, stdout=subprocess.DEVNULL, stderr=subprocess.DEVNULL)
subprocess.run('git -C /repo worktree add -q --detach %s HEAD' % wt, shell=True, check=True)
ok = True
for f, r, a in blocks:
    p = os.path.join(wt, f)
    if not os.path.exists(p):
        print('missing file', f); ok = False; continue
    s = open(p).read()
    rt, at = '\n'.join(r), '\n'.join(a)
    cands = [(rt, at)]
    r2, a2 = rt, at
    for o, n in subs:
        r2, a2 = r2.replace(o, n), a2.replace(o, n)
    cands.append((r2, a2))
    done = False
    for x, y in cands:
        if not r:  # pure insertion: needs an anchor; skip (handled by hand)
            break
        if x in s:
            s = s.replace(x + '\n', (y + '\n') if a else '', 1) if (x + '\n') in s else s.replace(x, y, 1)
            done = True
            break
    if not done:
        print('UNPLACED block in %s: %r' % (f, (rt[:80] or at[:80])))
        ok = False
    open(p, 'w').write(s)
d = subprocess.run('git diff HEAD', shell=True, cwd=wt, stdout=subprocess.PIPE, text=True).stdout
b = subprocess.run('cargo build --offline --features weak,internal-test-strategies,serde 2>&1 | grep -E "^error" -A5 | head -12', shell=True, cwd=wt, stdout=subprocess.PIPE, text=True).stdout
subprocess.run('git -C /repo worktree remove --force %s' % wt, shell=True)
if ok and not b.strip():
    if not os.path.exists(patch + '.pre-' + head): shutil.copy(patch, patch + '.pre-' + head)
    open(patch, 'w').write(d)
    print('rebased', patch, len(d.splitlines()))
else:
    print('FAILED', patch, b[:300])
