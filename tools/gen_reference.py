#!/usr/bin/env python3
"""Regenerate rules/tables/reference_shape.json from the tree in /repo (run only on a tree the rules were
confirmed against by hand)."""
import json, os, sys
os.environ['VERIF_NO_CANON'] = '1'
HERE = os.path.dirname(os.path.dirname(os.path.abspath(__file__)))
sys.path.insert(0, HERE)
from rules import facts as F, canon, mir
shapes = []
for cfg in ('A', 'X'):
    d = F.extract(cfg)
    j = mir.normalise(json.load(open(os.path.join(d, 'arc_swap.local.json'))))
    shapes.append(canon.shape_of(j))
ref = canon.merge_shapes(shapes)
ref['_doc'] = 'Structural description (types with field types, functions with signatures, consts with values, statics) of the arc-swap tree the rules were written against; used by rules/canon.py to undo renames / moves before the rules run.'
json.dump(ref, open(os.path.join(HERE, 'rules', 'tables', 'reference_shape.json'), 'w'), indent=0)
print({k: len(v) for k, v in ref.items() if isinstance(v, dict)})
