#!/bin/bash
# Manual confirmation of seeded changes whose demo-support patch needs a special apply recipe.
# usage: manual_confirm.sh <seed-id> <mutant-dir> <base> <demo-test-name> <clean-recipe> <mutant-recipe>
#   recipes are shell snippets run in the scratch worktree with $M = mutant dir
sid=$1; M=$2; base=$3; demo=$4; clean=$5; mut=$6
wt=/tmp/asv-mc-$sid; export CARGO_TARGET_DIR=/tmp/asv-seed-target CARGO_NET_OFFLINE=true
git -C /repo worktree remove --force $wt 2>/dev/null
git -C /repo worktree add -q --detach $wt $base || exit 2
cd $wt
run() { cp $M/$demo.rs tests/; timeout 1500 cargo test --offline $MC_FLAGS --features weak,internal-test-strategies,serde --test $demo 2>&1 | grep -E "^test |test result|panicked|error(\[|:)|could not compile" | head -12; }
echo "--- clean + support ($clean)"; eval "$clean" || echo RECIPE-FAILED; c=$(run); echo "$c"
git checkout -q -- . ; git clean -fdq -e target
echo "--- mutant + support ($mut)"; eval "$mut" || echo RECIPE-FAILED; m=$(run); echo "$m"
cd /; git -C /repo worktree remove --force $wt
okc=0; echo "$c" | grep -q "test result: ok" && ! echo "$c" | grep -q FAILED && okc=1
okm=0; echo "$m" | grep -qE "FAILED|panicked" && okm=1
echo "RESULT $sid clean_passes=$okc mutant_fails=$okm"
python3 - "$sid" "$okc" "$okm" "$base" "$clean" "$mut" <<'PY'
import json,sys
sid,okc,okm,base,clean,mut=sys.argv[1:]
p='/verif/seeded/%s/meta.json'%sid; m=json.load(open(p))
m['manual_confirmation']=dict(base=base, clean_recipe=clean, mutant_recipe=mut, demo_passes_without_change=okc=='1', demo_fails_with_change=okm=='1')
if okc=='1' and okm=='1':
    m['kept']=True; m.pop('not_kept_reason',None)
    m['steps']['demo_passes_without_change']=True; m['steps']['demo_fails_with_change']=True
json.dump(m,open(p,'w'),indent=1)
PY
