#!/usr/bin/env python3
"""Re-run every check against every recorded seeded change (library patch only) and refresh
meta.json['checks_fired'] + seeded/SUMMARY.md. Scratch copies live under /tmp and are removed."""
import json, os, re, shutil, subprocess, sys, tempfile
from concurrent.futures import ThreadPoolExecutor
VERIF = os.path.dirname(os.path.dirname(os.path.abspath(__file__)))
SEEDED = os.path.join(VERIF, 'seeded')


def one(sid):
    d = os.path.join(SEEDED, sid)
    meta = json.load(open(os.path.join(d, 'meta.json')))
    if meta.get('superseded_by_fix'):
        return sid, None  # written against code that a later fix: commit replaced; kept for the record with its last result
    t = tempfile.mkdtemp(prefix='asv-rs-')
    try:
        repo = os.path.join(t, 'repo')
        shutil.copytree('/repo', repo, ignore=shutil.ignore_patterns('target', '.git'))
        subprocess.run(['git', 'init', '-q', '.'], cwd=repo)
        p = subprocess.run(['git', 'apply', '--whitespace=nowarn', os.path.join(d, 'patch.diff')], cwd=repo, stdout=subprocess.PIPE, stderr=subprocess.STDOUT, text=True)
        if p.returncode != 0:
            return sid, None
        env = dict(os.environ, VERIF_REPO=repo, VERIF_NO_EVIDENCE='1', VERIF_OUT=os.path.join(t, 'out'), VERIF_CACHE=os.path.join(t, 'cache'), VERIF_KEEP_CACHE='1')
        p = subprocess.run([os.path.join(VERIF, 'check'), '--all'], env=env, stdout=subprocess.PIPE, stderr=subprocess.STDOUT, text=True)
        fired = {}
        cur = None
        for line in p.stdout.splitlines():
            m = re.match(r'^(C\d+) ', line)
            if m:
                cur = m.group(1)
            m = re.match(r'^  ([A-Z][A-Z-]+) \[(\w+)\] (\S*) ?(.*?) :: (.*)$', line)
            if m and cur:
                ent = '%s|%s' % (m.group(1), m.group(4).strip())
                fired.setdefault(cur, [])
                if ent not in fired[cur]:
                    fired[cur].append(ent)
        meta['checks_fired'] = fired
        meta['caught_by_own_property'] = meta['property'] in fired
        meta['caught'] = bool(fired)
        json.dump(meta, open(os.path.join(d, 'meta.json'), 'w'), indent=1)
        return sid, fired
    finally:
        shutil.rmtree(t, ignore_errors=True)


sids = sorted(x for x in os.listdir(SEEDED) if os.path.exists(os.path.join(SEEDED, x, 'meta.json')))
if len(sys.argv) > 1:
    sids = [s for s in sids if any(a in s for a in sys.argv[1:])]
with ThreadPoolExecutor(max_workers=6) as ex:
    res = list(ex.map(one, sids))
lines = ['# Seeded changes (written by independent sub-agents, confirmed by tools/confirm_seed.py)', '',
         '| id | property | kept | caught by own check | rules that fire (own property) | other properties that fire |', '|---|---|---|---|---|---|']
for sid in sorted(x for x in os.listdir(SEEDED) if os.path.exists(os.path.join(SEEDED, x, 'meta.json'))):
    m = json.load(open(os.path.join(SEEDED, sid, 'meta.json')))
    f = m.get('checks_fired', {})
    own = f.get(m['property'], [])
    lines.append('| %s | %s | %s | %s | %s | %s |' % (sid, m['property'], 'yes' if m.get('kept') else 'no (%s)' % m.get('not_kept_reason', 'see meta.json'),
                 ('yes' if own else 'NO') + (' (last checked before fix: %s, which replaced the code it edits)' % m['superseded_by_fix'] if m.get('superseded_by_fix') else ''),
                 '; '.join(sorted({x.split('|')[0] for x in own})), ' '.join(sorted(k for k in f if k != m['property']))))
open(os.path.join(SEEDED, 'SUMMARY.md'), 'w').write('\n'.join(lines) + '\n')
print('\n'.join(lines))
