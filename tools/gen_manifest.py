#!/usr/bin/env python3
"""Regenerate MANIFEST.json from rules/props.py (keeps the manifest in step with what is claimed)."""
import json, os, sys
HERE = os.path.dirname(os.path.dirname(os.path.abspath(__file__)))
sys.path.insert(0, HERE)
from rules import props

ALL = [json.loads(l)['id'] for l in open(os.path.join(HERE, 'properties.jsonl'))]
checks = []
for pid in sorted(props.PROPERTIES):
    sp = props.PROPERTIES[pid]
    checks.append({
        'property_id': pid,
        'quick_cmd': './check %s --tier quick' % pid,
        'thorough_cmd': './check %s --tier thorough' % pid,
        'evidence_file': 'evidence/%s.json' % pid,
        'replay_cmd_template': './check %s --replay {path}' % pid,
        'engine': sp.get('engine', 'mir-facts'),
        'level_claimed': {
            'category': sp.get('level', 'other'),
            'text': sp['explanation'] + ' NOT decided: ' + sp['not_decided'],
            'design_ref': 'DESIGN.md §4 ' + pid,
        },
        'level_note': sp.get('level_note', 'Trusted base: rustc nightly (type checker, trait solver, MIR construction, drop elaboration at mir-opt-level=0); '
                             'core/alloc/std leaves behave as classified in rules/tables/leaf_classes.json; the rule tables (floors, weights, discharges) '
                             'encode the protocol argument of the crate\'s own comments. Necessary structural conditions only: no interleaving, history or weak-memory execution is explored.'),
        'technique': sp.get('technique', 'static analysis: custom rules over rustc MIR facts (rustc_private driver) — ' + ', '.join(sp.get('rule_names', []))),
    })
na = []
for pid in ALL:
    if pid not in props.PROPERTIES:
        na.append({'property_id': pid, 'reason': props.NOT_APPLICABLE.get(pid, 'check not built yet in this tree')})
m = {
    'version': 1,
    'setup_cmd': './setup.sh',
    'hooks': {
        'guard': 'arc_swap_verif',
        'enable': 'none needed: no hook exists in /repo; the analyser reads private bodies through -Zalways-encode-mir from a roots crate generated outside /repo',
        'baseline_off_cmd': 'cd /repo && cargo test --workspace --no-fail-fast --offline',
        'source_commits': [],
        'add_only': True,
    },
    'engines': [
        {'name': 'mir-facts', 'path': 'driver/ + rules/', 'serves_properties': [c['property_id'] for c in checks if c['engine'] == 'mir-facts'],
         'kind_free_text': 'rustc_private driver dumping polymorphic MIR + instantiated call graph as JSON; Python rule engine (dominators, post-dominators, loops, provenance slices, typestate, ledger)'},
        {'name': 'type-level', 'path': 'witness/', 'serves_properties': [c['property_id'] for c in checks if c['engine'] == 'type-level'],
         'kind_free_text': 'generated witness crates decided by rustc\'s trait solver / borrow checker (const assertions, compile-fail witnesses with compiling twins)'},
    ],
    'checks': checks,
    'not_applicable': na,
    'notes': 'All checks are static: nothing registered here runs arc-swap code or its tests. Fixes to /repo: two unguarded "fix:" commits (see known_findings.json).',
}
json.dump(m, open(os.path.join(HERE, 'MANIFEST.json'), 'w'), indent=1)
print('manifest: %d checks, %d not applicable' % (len(checks), len(na)))
