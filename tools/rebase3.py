#!/usr/bin/env python3
"""Rebase stored patches over a new fix: commit by a per-file 3-way merge.
usage: rebase3.py <parent-commit> <patch>...   (parent = the commit the patch still applies to)
The original is kept as <patch>.pre-<HEAD>; conflicts are reported and left for a manual port."""
import os, re, subprocess, sys, shutil, tempfile
parent = sys.argv[1]
head = subprocess.run('git -C /repo rev-parse --short HEAD', shell=True, stdout=subprocess.PIPE, text=True).stdout.strip()


def sh(cmd, cwd=None):
    return subprocess.run(cmd, cwd=cwd, shell=True, stdout=subprocess.PIPE, stderr=subprocess.STDOUT, text=True)


for patch in sys.argv[2:]:
    patch = os.path.abspath(patch)
    wt = '/tmp/asv-rebase3'
    sh('git -C /repo worktree remove --force %s' % wt)
    assert sh('git -C /repo worktree add -q --detach %s %s' % (wt, parent)).returncode == 0
    try:
        r = sh('git apply --whitespace=nowarn %s' % patch, cwd=wt)
        if r.returncode != 0:
            print('CANNOT APPLY ON PARENT', patch, r.stdout[:200]); continue
        files = sh('git status --porcelain', cwd=wt).stdout.split('\n')
        files = [l[3:] for l in files if l.strip()]
        tmp = tempfile.mkdtemp(prefix='asv-r3-')
        out, conflict = [], False
        for f in files:
            patched = os.path.join(wt, f)
            basef = os.path.join(tmp, 'base'); headf = os.path.join(tmp, 'head')
            rb = sh('git -C /repo show %s:%s' % (parent, f))
            rh = sh('git -C /repo show HEAD:%s' % f)
            if rb.returncode != 0 or rh.returncode != 0:
                # new file in the patch
                newc = open(patched).read()
                d = sh('git diff --no-index --no-color /dev/null %s' % patched).stdout
                d = re.sub(r'^diff --git .*$', 'diff --git a/%s b/%s' % (f, f), d, flags=re.M)
                d = re.sub(r'^\+\+\+ .*$', '+++ b/%s' % f, d, flags=re.M)
                out.append(d); continue
            open(basef, 'w').write(rb.stdout); open(headf, 'w').write(rh.stdout)
            m = sh('git merge-file -p %s %s %s' % (patched, basef, headf))
            if m.returncode != 0:
                conflict = True
                break
            mergedf = os.path.join(tmp, 'merged'); open(mergedf, 'w').write(m.stdout)
            d = sh('git diff --no-index --no-color %s %s' % (headf, mergedf)).stdout
            d = re.sub(r'^diff --git .*$', 'diff --git a/%s b/%s' % (f, f), d, flags=re.M)
            d = re.sub(r'^--- .*$', '--- a/%s' % f, d, flags=re.M)
            d = re.sub(r'^\+\+\+ .*$', '+++ b/%s' % f, d, flags=re.M)
            out.append(d)
        shutil.rmtree(tmp, ignore_errors=True)
        if conflict:
            print('CONFLICT', patch); continue
        shutil.copy(patch, patch + '.pre-' + head)
        open(patch, 'w').write(''.join(out))
        ok = sh('git apply --check %s' % patch, cwd='/repo').returncode == 0
        print('rebased' if ok else 'STILL BROKEN', patch)
    finally:
        sh('git -C /repo worktree remove --force %s' % wt)
