#!/usr/bin/env python3
"""Rebase stored patches over a fix: commit that is itself a local textual substitution: apply the patch on the fix's parent,
apply the fix's substitutions to the patched files, diff the result against HEAD.
usage: rebase_subst.py <parent> <subs.json> <patch>...    subs.json = [[file, old, new], ...] (old may occur anywhere in the patched file)"""
import json, os, re, subprocess, sys, shutil
parent, subsf = sys.argv[1], sys.argv[2]
subs = json.load(open(subsf))
head = subprocess.run('git -C /repo rev-parse --short HEAD', shell=True, stdout=subprocess.PIPE, text=True).stdout.strip()
def sh(cmd, cwd=None):
    return subprocess.run(cmd, cwd=cwd, shell=True, stdout=subprocess.PIPE, stderr=subprocess.STDOUT, text=True)
for patch in sys.argv[3:]:
    patch = os.path.abspath(patch)
    wt = '/tmp/asv-rebase-s'
    sh('git -C /repo worktree remove --force %s' % wt)
    assert sh('git -C /repo worktree add -q --detach %s %s' % (wt, parent)).returncode == 0
    try:
        r = sh('git apply --whitespace=nowarn %s' % patch, cwd=wt)
        if r.returncode != 0:
            print('CANNOT APPLY ON PARENT', patch); continue
        touched = [l[3:] for l in sh('git status --porcelain', cwd=wt).stdout.split('\n') if l.strip()]
        # bring every file the fix touched to "patched + fix": files not touched by the patch are taken from HEAD
        fixfiles = sorted({f for f, _, _ in subs})
        for f in fixfiles:
            p = os.path.join(wt, f)
            if f not in touched:
                open(p, 'w').write(sh('git -C /repo show HEAD:%s' % f).stdout)
                continue
            s = open(p).read()
            for ff, old, new in subs:
                if ff == f and old in s:
                    s = s.replace(old, new)
            open(p, 'w').write(s)
        out = []
        for f in sorted(set(touched) | set(fixfiles)):
            hp = sh('git -C /repo show HEAD:%s' % f)
            p = os.path.join(wt, f)
            if hp.returncode != 0:
                d = sh('git diff --no-index --no-color /dev/null %s' % p).stdout
            else:
                open('/tmp/asv-rs-head', 'w').write(hp.stdout)
                d = sh('git diff --no-index --no-color /tmp/asv-rs-head %s' % p).stdout
            if not d.strip():
                continue
            d = re.sub(r'^diff --git .*$', 'diff --git a/%s b/%s' % (f, f), d, flags=re.M)
            d = re.sub(r'^--- .*$', '--- a/%s' % f, d, flags=re.M) if hp.returncode == 0 else d
            d = re.sub(r'^\+\+\+ .*$', '+++ b/%s' % f, d, flags=re.M)
            out.append(d)
        b = sh('cargo build --offline --features weak,internal-test-strategies,serde 2>&1 | grep -E "^error" -A5 | head -8', cwd=wt).stdout
        if b.strip():
            print('BUILD FAILS', patch, b[:200]); continue
        if not os.path.exists(patch + '.pre-' + head): shutil.copy(patch, patch + '.pre-' + head)
        open(patch, 'w').write(''.join(out))
        ok = sh('git apply --check %s' % patch, cwd='/repo').returncode == 0
        left = [o for _, o, _ in subs if any(o in open(os.path.join(wt, f)).read() for f in fixfiles)]
        print('rebased' if ok else 'STILL BROKEN', patch, '(old fix text still present somewhere!)' if left else '')
    finally:
        sh('git -C /repo worktree remove --force %s' % wt)
