#!/usr/bin/env python3
"""Rebase stored patches (benign corpus, seeded changes) that no longer apply after the fix: commit 9fce248 (rw_lock.rs:
poison-tolerant lock acquisition). The patch is applied on the parent of the fix in a scratch worktree, the fix's own textual
substitutions are applied to the patched file, and the result is diffed against HEAD."""
import os, re, subprocess, sys, shutil
PARENT = '49e75bd'
COMMENT = """        // The lock guards no data of its own, so there's nothing a panic under it (a destructor of
        // the pointee run inside compare_and_swap) could have left inconsistent. Don't let such a
        // panic poison every later operation.
"""
def sh(cmd, cwd=None):
    return subprocess.run(cmd, cwd=cwd, shell=True, stdout=subprocess.PIPE, stderr=subprocess.STDOUT, text=True)
for patch in sys.argv[1:]:
    patch = os.path.abspath(patch)
    wt = '/tmp/asv-rebase'
    sh('git -C /repo worktree remove --force %s' % wt)
    assert sh('git -C /repo worktree add -q --detach %s %s' % (wt, PARENT)).returncode == 0
    r = sh('git apply --whitespace=nowarn %s' % patch, cwd=wt)
    if r.returncode != 0:
        print('cannot apply on parent:', patch, r.stdout); continue
    p = os.path.join(wt, 'src/strategy/rw_lock.rs')
    s = open(p).read()
    s = s.replace('use std::sync::RwLock;', 'use std::sync::{PoisonError, RwLock};')
    s = s.replace('.expect("We don\'t panic in here")', '.unwrap_or_else(PoisonError::into_inner)')
    # the comment goes in front of the first read() acquisition
    m = re.search(r'^([ \t]*)(let [^\n]*self\.read\(\)|[^\n]*self\.read\(\))', s, re.M)
    if m and COMMENT.strip().splitlines()[0].strip() not in s:
        ind = m.group(1)
        c = ''.join(ind + l.strip() + '\n' for l in COMMENT.splitlines())
        s = s[:m.start()] + c + s[m.start():]
    open(p, 'w').write(s)
    files = sh('git diff --name-only', cwd=wt).stdout.split()
    # diff against HEAD
    sh('git stash -q 2>/dev/null; true', cwd='/')
    out = []
    for f in files:
        d = sh('git diff --no-index --no-color /repo/%s %s/%s' % (f, wt, f)).stdout
        d = d.replace('a/repo/', 'a/').replace('b%s/' % wt, 'b/').replace('/repo/', '').replace(wt + '/', '')
        d = re.sub(r'^diff --git .*$', 'diff --git a/%s b/%s' % (f, f), d, flags=re.M)
        d = re.sub(r'^--- .*$', '--- a/%s' % f, d, flags=re.M)
        d = re.sub(r'^\+\+\+ .*$', '+++ b/%s' % f, d, flags=re.M)
        out.append(d)
    shutil.copy(patch, patch + '.pre-9fce248')
    open(patch, 'w').write(''.join(out))
    sh('git -C /repo worktree remove --force %s' % wt)
    ok = sh('git apply --check %s' % patch, cwd='/repo').returncode == 0
    print('rebased' if ok else 'STILL BROKEN', patch)
