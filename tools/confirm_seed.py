#!/usr/bin/env python3
"""Confirm a sub-agent's seeded change myself and record it under /verif/seeded/<id>/.

usage: confirm_seed.py <property> <mutant-dir> <seed-id>
Steps (all in a scratch worktree outside /repo and /verif, removed afterwards):
  1. patch applies, crate builds (default + all stable features)
  2. the repository's own test suite passes with the change (cargo test --offline)
  3. the demonstration fails with the change and passes without it (demo-support.diff kept in both runs)
  4. which of /verif's checks fire on the changed tree (VERIF_REPO=<worktree>)
"""
import glob, json, os, re, shutil, subprocess, sys, time

prop, mdir, sid = sys.argv[1], os.path.abspath(sys.argv[2]), sys.argv[3]
VERIF = os.path.dirname(os.path.dirname(os.path.abspath(__file__)))
wt = '/tmp/asv-cs-%s' % sid
tgt = '/tmp/asv-seed-target'
env = dict(os.environ, CARGO_TARGET_DIR=tgt, CARGO_NET_OFFLINE='true')
FEATS = 'weak,internal-test-strategies,serde'


def sh(cmd, cwd=wt, timeout=1800, **kw):
    p = subprocess.run(cmd, cwd=cwd, shell=isinstance(cmd, str), env=env, stdout=subprocess.PIPE, stderr=subprocess.STDOUT, text=True, timeout=timeout, **kw)
    return p.returncode, p.stdout


meta = dict(seed_id=sid, property=prop, source_dir=mdir, at=time.strftime('%Y-%m-%dT%H:%M:%SZ', time.gmtime()), steps={})
subprocess.run(['git', '-C', '/repo', 'worktree', 'remove', '--force', wt], stdout=subprocess.DEVNULL, stderr=subprocess.DEVNULL)
BASE = os.environ.get('ASV_BASE', 'HEAD')  # the demonstration may be run on the commit the agent worked on (before a later fix:)
rc, out = sh(['git', '-C', '/repo', 'worktree', 'add', '--detach', wt, BASE], cwd='/')
if BASE != 'HEAD':
    meta['demo_base'] = BASE
assert rc == 0, out
try:
    patch = os.path.join(mdir, 'patch.diff')
    support = os.path.join(mdir, 'demo-support.diff')
    demos = [f for f in glob.glob(os.path.join(mdir, '*.rs'))]
    readme0 = open(os.path.join(mdir, 'README.md')).read() if os.path.exists(os.path.join(mdir, 'README.md')) else ''
    # examples that are *meant* not to compile on the clean tree (C19-style) are not run as demos; the test files decide
    demos = [f for f in demos if not (('examples/' + os.path.basename(f)) in readme0 and prop == 'C19')]
    readme = open(os.path.join(mdir, 'README.md')).read() if os.path.exists(os.path.join(mdir, 'README.md')) else ''
    rc, out = sh(['git', 'apply', '--whitespace=nowarn', patch])
    meta['steps']['applies'] = rc == 0
    if rc != 0:
        raise SystemExit('patch does not apply: ' + out)
    rc1, o1 = sh('cargo build --offline 2>&1 | tail -3')
    rc2, o2 = sh('cargo build --offline --features %s 2>&1 | tail -3' % FEATS)
    meta['steps']['builds'] = ('error' not in o1 and 'error' not in o2)
    # 2. own suite with the change
    rc, out = sh('cargo test --offline 2>&1 | grep -E "^test result|FAILED|panicked|error(\\[|:)"')
    ok = 'FAILED' not in out and 'error' not in out and out.count('test result: ok') >= 3
    meta['steps']['suite_passes_with_change'] = ok
    meta['suite_output'] = out[-1500:]
    # 3. demonstration
    demo_res = {}
    if demos:
        if os.path.exists(support):
            rc, out = sh(['git', 'apply', '--whitespace=nowarn', support])
            meta['steps']['support_applies'] = rc == 0
        for d in demos:
            name = os.path.basename(d)[:-3]
            is_example = ('examples/' + os.path.basename(d)) in readme and ('tests/' + os.path.basename(d)) not in readme
            dst = os.path.join(wt, 'examples' if is_example else 'tests', os.path.basename(d))
            os.makedirs(os.path.dirname(dst), exist_ok=True)
            shutil.copy(d, dst)
        def run_demos():
            res = {}
            for d in demos:
                name = os.path.basename(d)[:-3]
                is_example = os.path.exists(os.path.join(wt, 'examples', name + '.rs'))
                if is_example:
                    cmd = 'timeout 300 cargo run --offline --features %s --example %s 2>&1 | tail -25' % (FEATS, name)
                else:
                    cmd = 'timeout 600 cargo test --offline --features %s --test %s 2>&1 | grep -E "^test |test result|panicked|error(\\[|:)|could not compile" | head -30' % (FEATS, name)
                rc, out = sh(cmd)
                passed = ('test result: ok' in out and 'FAILED' not in out) if not is_example else ('error' not in out and 'panicked' not in out)
                res[name] = dict(passed=passed, output=out[-1200:])
            return res
        with_change = run_demos()
        rcr, outr = sh(['git', 'apply', '-R', '--whitespace=nowarn', patch])
        if rcr != 0:
            # the support patch was cut next to the mutant's lines: rebuild "clean + support" by a 3-way apply on a clean tree
            sh('git checkout -q -- . ')
            rcs, outs = sh(['git', 'apply', '--3way', '--whitespace=nowarn', support])
            meta['steps']['support_applies_on_clean'] = (rcs == 0)
        without = run_demos()
        sh('git checkout -q -- . ')
        sh(['git', 'apply', '--whitespace=nowarn', patch])
        if os.path.exists(support):
            sh(['git', 'apply', '--whitespace=nowarn', support])
        meta['demo'] = dict(with_change=with_change, without_change=without)
        meta['steps']['demo_fails_with_change'] = any(not v['passed'] for v in with_change.values())
        meta['steps']['demo_passes_without_change'] = all(v['passed'] for v in without.values())
    else:
        meta['steps']['demo_fails_with_change'] = None
        meta['demo'] = 'no runnable demonstration (see README: written execution)'
    # 4. my checks on the changed tree (library change only)
    for d in demos:
        for sub in ('tests', 'examples'):
            p = os.path.join(wt, sub, os.path.basename(d))
            if os.path.exists(p):
                os.remove(p)
    if os.path.exists(support):
        sh(['git', 'apply', '-R', '--whitespace=nowarn', support])
    if BASE != 'HEAD':
        # the checks always look at today's tree + the change
        sh('git checkout -q -- . && git clean -fdq -e target')
        head = subprocess.run(['git', '-C', '/repo', 'rev-parse', 'HEAD'], stdout=subprocess.PIPE, text=True).stdout.strip()
        sh(['git', 'checkout', '-q', '--detach', head])
        rc, out = sh(['git', 'apply', '--whitespace=nowarn', patch])
        meta['steps']['applies_on_head'] = rc == 0
    e2 = dict(os.environ, VERIF_REPO=wt, VERIF_NO_EVIDENCE='1', VERIF_OUT='/tmp/asv-cs-out-%s' % sid, VERIF_CACHE='/tmp/asv-cs-cache-%s' % sid)
    p = subprocess.run([os.path.join(VERIF, 'check'), '--all'], env=e2, stdout=subprocess.PIPE, stderr=subprocess.STDOUT, text=True, timeout=1800)
    fired = {}
    cur = None
    for line in p.stdout.splitlines():
        m = re.match(r'^(C\d+) ', line)
        if m:
            cur = m.group(1)
        m = re.match(r'^  ([A-Z][A-Z-]+) \[(\w+)\] (\S*) ?(.*?) :: (.*)$', line)
        if m and cur:
            fired.setdefault(cur, [])
            ent = '%s|%s' % (m.group(1), m.group(4).strip())
            if ent not in fired[cur]:
                fired[cur].append(ent)
    shutil.rmtree('/tmp/asv-cs-out-%s' % sid, ignore_errors=True)
    shutil.rmtree('/tmp/asv-cs-cache-%s' % sid, ignore_errors=True)
    meta['checks_fired'] = fired
    meta['caught_by_own_property'] = prop in fired
    meta['caught'] = bool(fired)
    meta['what_it_needs'] = ''
    m = re.search(r'(?is)(what it needs[^\n]*\n.*?)(\n#|\n\*\*|\Z)', readme)
    if m:
        meta['what_it_needs'] = m.group(1).strip()[:1200]
    keep = meta['steps'].get('applies') and meta['steps'].get('builds') and meta['steps'].get('suite_passes_with_change') and \
        (meta['steps'].get('demo_fails_with_change') in (True, None)) and (meta['steps'].get('demo_passes_without_change', True))
    meta['kept'] = bool(keep)
    if not keep:
        why = [k for k, v in meta['steps'].items() if v is False]
        meta['not_kept_reason'] = 'failed step(s): ' + ', '.join(why)
        if meta['steps'].get('demo_fails_with_change') is False:
            meta['not_kept_reason'] = 'no demonstration that fails when run on this machine (weak-memory-only change with a written execution); recorded, but not counted as a confirmed seeded change'
    out = os.path.join(VERIF, 'seeded', sid)
    os.makedirs(out, exist_ok=True)
    shutil.copy(patch, os.path.join(out, 'patch.diff'))
    if os.path.exists(support):
        shutil.copy(support, os.path.join(out, 'demo-support.diff'))
    for d in demos:
        shutil.copy(d, os.path.join(out, os.path.basename(d)))
    if readme:
        open(os.path.join(out, 'README.agent.md'), 'w').write(readme)
    json.dump(meta, open(os.path.join(out, 'meta.json'), 'w'), indent=1)
    print(sid, 'kept' if keep else 'NOT-KEPT', 'steps', meta['steps'], 'fired', {k: len(v) for k, v in fired.items()})
finally:
    subprocess.run(['git', '-C', '/repo', 'worktree', 'remove', '--force', wt], stdout=subprocess.DEVNULL, stderr=subprocess.DEVNULL)
