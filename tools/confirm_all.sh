#!/bin/bash
# confirm every delivered seeded mutant not yet recorded
cd /verif
for d in /tmp/seed/C*-out/mutant-*; do
  [ -f "$d/patch.diff" ] || continue
  p=$(basename $(dirname $d)); p=${p%-out}
  m=$(basename $d); m=${m#mutant-}
  id="$p-m$m"
  [ -f "seeded/$id/meta.json" ] && continue
  python3 tools/confirm_seed.py $p $d $id 2>&1 | tail -1
done
