#!/bin/bash
# confirm every delivered seeded mutant not yet recorded (first wave: Cxx-out, second: Cxxb-out, third: Cxxc-out, fourth: Cxxd-out)
cd /verif
for d in /tmp/seed/C*-out/mutant-*; do
  [ -f "$d/patch.diff" ] || continue
  p=$(basename $(dirname $d)); p=${p%-out}
  m=$(basename $d); m=${m#mutant-}
  case "$p" in
    *b) prop=${p%b}; id="$prop-w2m$m" ;;
    *c) prop=${p%c}; id="$prop-w3m$m" ;;
    *d) prop=${p%d}; id="$prop-w4m$m" ;;
    *e) prop=${p%e}; id="$prop-w5m$m" ;;
    *f) prop=${p%f}; id="$prop-w6m$m" ;;
    *g) prop=${p%g}; id="$prop-w7m$m" ;;
    *h) prop=${p%h}; id="$prop-w8m$m" ;;
    *i) prop=${p%i}; id="$prop-w9m$m" ;;
    *j) prop=${p%j}; id="$prop-w10m$m" ;;
    *)  prop=$p; id="$p-m$m" ;;
  esac
  [ -f "seeded/$id/meta.json" ] && continue
  python3 tools/confirm_seed.py $prop $d $id 2>&1 | tail -1
done
