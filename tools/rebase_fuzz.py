#!/usr/bin/env python3
"""Rebase stored patches over a fix: commit: apply the stored patch on the fix's parent, then apply the fix itself on top with GNU
patch (fuzz 3), diff against HEAD. usage: rebase_fuzz.py <parent> <fix-commit> <patch>... (takes the .pre-<fix> original if present)"""
import os, re, subprocess, sys, shutil
parent, fix = sys.argv[1], sys.argv[2]
def sh(cmd, cwd=None):
    return subprocess.run(cmd, cwd=cwd, shell=True, stdout=subprocess.PIPE, stderr=subprocess.STDOUT, text=True)
fixdiff = '/tmp/asv-fix-%s.diff' % fix
open(fixdiff, 'w').write(sh('git -C /repo diff %s %s' % (parent, fix)).stdout)
for patch in sys.argv[3:]:
    patch = os.path.abspath(patch)
    orig = patch + '.pre-' + fix
    src = orig if os.path.exists(orig) else patch
    wt = '/tmp/asv-rebase-f'
    sh('git -C /repo worktree remove --force %s' % wt)
    assert sh('git -C /repo worktree add -q --detach %s %s' % (wt, parent)).returncode == 0
    try:
        if sh('git apply --whitespace=nowarn %s' % src, cwd=wt).returncode != 0:
            print('CANNOT APPLY ON PARENT', patch); continue
        r = sh('patch -p1 --fuzz=3 --no-backup-if-mismatch -i %s' % fixdiff, cwd=wt)
        if r.returncode != 0:
            print('FIX DOES NOT APPLY ON TOP', patch, [l for l in r.stdout.splitlines() if 'FAILED' in l][:3]); continue
        sh('find . -name "*.orig" -delete', cwd=wt)
        b = sh('cargo build --offline --features weak,internal-test-strategies,serde 2>&1 | grep -E "^error" -A5 | head -8', cwd=wt).stdout
        if b.strip():
            print('BUILD FAILS', patch, b[:160]); continue
        files = [l[3:] for l in sh('git status --porcelain', cwd=wt).stdout.split('\n') if l.strip() and not l.endswith('.orig')]
        out = []
        for f in sorted(files):
            hp = sh('git -C /repo show %s:%s' % (fix, f))
            p = os.path.join(wt, f)
            if hp.returncode != 0:
                d = sh('git diff --no-index --no-color /dev/null %s' % p).stdout
            else:
                open('/tmp/asv-rf-head', 'w').write(hp.stdout)
                d = sh('git diff --no-index --no-color /tmp/asv-rf-head %s' % p).stdout
            if not d.strip():
                continue
            d = re.sub(r'^diff --git .*$', 'diff --git a/%s b/%s' % (f, f), d, flags=re.M)
            if hp.returncode == 0:
                d = re.sub(r'^--- .*$', '--- a/%s' % f, d, flags=re.M)
            d = re.sub(r'^\+\+\+ .*$', '+++ b/%s' % f, d, flags=re.M)
            out.append(d)
        if not os.path.exists(orig): shutil.copy(patch, orig)
        open(patch, 'w').write(''.join(out))
        ok = sh('git apply --check %s' % patch, cwd='/repo').returncode == 0
        print('rebased' if ok else 'STILL BROKEN (HEAD moved on?)', patch)
    finally:
        sh('git -C /repo worktree remove --force %s' % wt)
