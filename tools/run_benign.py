#!/usr/bin/env python3
"""Run every check against every benign (behaviour-preserving) patch in selftest/benign/*.diff.
Any violation is a false alarm of the machinery. usage: run_benign.py [substr ...]"""
import glob, json, os, re, shutil, subprocess, sys, tempfile
from concurrent.futures import ThreadPoolExecutor
VERIF = os.path.dirname(os.path.dirname(os.path.abspath(__file__)))


def one(patch):
    t = tempfile.mkdtemp(prefix='asv-bn-')
    try:
        repo = os.path.join(t, 'repo')
        shutil.copytree('/repo', repo, ignore=shutil.ignore_patterns('target', '.git'))
        subprocess.run(['git', 'init', '-q', '.'], cwd=repo)
        p = subprocess.run(['git', 'apply', '--whitespace=nowarn', patch], cwd=repo, stdout=subprocess.PIPE, stderr=subprocess.STDOUT, text=True)
        if p.returncode != 0:
            return patch, 'DOES-NOT-APPLY ' + p.stdout[:200], []
        env = dict(os.environ, VERIF_REPO=repo, VERIF_NO_EVIDENCE='1', VERIF_OUT=os.path.join(t, 'out'), VERIF_CACHE=os.path.join(t, 'cache'), VERIF_KEEP_CACHE='1')
        tier = os.environ.get('BENIGN_TIER', 'quick')
        p = subprocess.run([os.path.join(VERIF, 'check'), '--all', '--tier', tier], env=env, stdout=subprocess.PIPE, stderr=subprocess.STDOUT, text=True)
        viol = []
        cur = None
        for line in p.stdout.splitlines():
            m = re.match(r'^(C\d+) ', line)
            if m:
                cur = m.group(1)
            if re.match(r'^  [A-Z][A-Z-]+ \[', line):
                viol.append('%s %s' % (cur, line.strip()[:260].replace(repo + '/', '')))
            if 'fact extraction failed' in line or 'Traceback' in line:
                viol.append('%s %s' % (cur, line[:200]))
        return patch, 'silent' if not viol else 'FALSE-ALARM', viol
    finally:
        shutil.rmtree(t, ignore_errors=True)


pats = sorted(glob.glob(os.path.join(VERIF, 'selftest', 'benign', '*.diff')))
if len(sys.argv) > 1:
    pats = [p for p in pats if any(a in p for a in sys.argv[1:])]
with ThreadPoolExecutor(max_workers=6) as ex:
    res = list(ex.map(one, pats))
bad = 0
for patch, status, viol in res:
    print('%-12s %s' % (status, os.path.basename(patch)))
    seen = set()
    for v in viol:
        k = re.sub(r'\[\w+\]', '', v)
        if k in seen:
            continue
        seen.add(k)
        print('     ', v)
    bad += status != 'silent'
print('benign: %d patches, %d with alarms' % (len(res), bad))
sys.exit(1 if bad else 0)
