#!/usr/bin/env python3
"""Regenerate the per-change matrix of DESIGN.md §6.2 from seeded/SUMMARY.md (written by tools/recheck_seeded.py)."""
import os, re
HERE = os.path.dirname(os.path.dirname(os.path.abspath(__file__)))
BEGIN, END = '<!-- BEGIN GENERATED: seeded-matrix -->', '<!-- END GENERATED: seeded-matrix -->'


def title(i):
    p = os.path.join(HERE, 'seeded', i, 'README.agent.md')
    if os.path.exists(p):
        for l in open(p):
            if l.startswith('#'):
                t = re.sub(r'^#+\s*', '', l.strip())
                t = re.sub(r'^(C\d+\w*)?\s*[/ ]*\s*[Mm]utant[- ]*\d\s*[—‒–:\-]+\s*', '', t)
                return t.replace('|', '/')[:110]
    return ''


rows = [l for l in open(os.path.join(HERE, 'seeded', 'SUMMARY.md')) if l.startswith('| C')]
tab = ['| change | what it does | status | rules of its own property that fire | other properties that fire |', '|---|---|---|---|---|']
kept = own = 0
for l in rows:
    c = [x.strip() for x in l.strip().strip('|').split('|')]
    i, prop, k, o, rules, others = c
    st = ('confirmed' + (' (superseded: ' + o[o.index('('):].strip('()') + ')' if '(' in o else '')) if k == 'yes' else 'recorded only (not observable on this machine: written execution / Miri)'
    kept += k == 'yes'
    own += (k == 'yes' and o.startswith('yes'))
    tab.append('| %s | %s | %s | %s | %s |' % (i, title(i), st, rules if o.startswith('yes') else '— (neighbour only)', others))
txt = BEGIN + '\n' + '\n'.join(tab) + '\n\n(%d changes, %d confirmed, %d of those reported by the check of their own property, all reported by at least one check.)\n' % (len(rows), kept, own) + END
p = os.path.join(HERE, 'DESIGN.md')
s = open(p).read()
if BEGIN in s:
    s = s[:s.index(BEGIN)] + txt + s[s.index(END) + len(END):]
else:
    a = s.index('| change | what it does | status |')
    b = s.index('\n\n', a)
    s = s[:a] + txt + s[b:]
open(p, 'w').write(s)
print('matrix: %d rows, %d kept, %d own' % (len(rows), kept, own))
