"""Pointer-kind rules (C15): REFCNT-SIBLINGS."""
import re
from . import util as U

WEIGHT = {'into_raw': +1, 'from_raw': -1, 'increment_strong_count': +1, 'decrement_strong_count': -1}
EXPECT = {'into_ptr': +1, 'from_ptr': -1, 'as_ptr': 0, 'inc': +1, 'dec': -1}


def _refcnt_impls(fx):
    out = {}
    for b in fx.lib.bodies:
        if (b.j.get('impl_trait') or '').endswith('ref_cnt::RefCnt'):
            out.setdefault(b.j.get('impl_self_ty'), {})[b.name] = b
    return out


def _path_totals(b):
    """(total, returns_null, under_null_test) per acyclic normal path"""
    out = []
    stack = [(0, 0, False, None, (0,))]
    while stack:
        bb, bal, null_ret, null_in, path = stack.pop()
        t = b.term(bb)
        k = t['k']
        if k == 'return':
            out.append((bal, null_ret, null_in, path))
            continue
        if k in ('unreachable', 'resume'):
            continue
        nb = bal
        nr = null_ret
        if k == 'call':
            nm = U.callee_name(t)
            c = t['callee']
            std = c.get('krate') in ('alloc', 'core', 'std')
            if std and nm in WEIGHT:
                nb += WEIGHT[nm]
            elif std and nm == 'forget' and _owned_ptr_ty((t.get('arg_tys') or [''])[0]):
                nb += 1
            elif std and nm == 'read' and c.get('path', '').endswith('ptr::read'):
                nb -= 1
            elif (c.get('trait') or '').endswith('ref_cnt::RefCnt'):
                nb += {'into_ptr': 1, 'from_ptr': -1, 'inc': 1, 'dec': -1}.get(nm, 0)
            elif std and nm in ('map', 'unwrap_or_else', 'map_or', 'map_or_else', 'and_then'):
                for a in t['args']:
                    if a['k'] == 'const' and 'into_ptr' in (a['c'].get('fn_pretty') or ''):
                        nb += 1
                    if a['k'] == 'const' and 'from_ptr' in (a['c'].get('fn_pretty') or ''):
                        nb -= 1
                    d = U.def_rvalue(b, a)
                    if d and d[0] == 'rv' and d[3]['k'] == 'aggregate' and d[3].get('closure') and b.crate is not None:
                        cb = b.crate.by_key.get(d[3]['closure'])
                        if cb is not None:
                            tots = {p[0] for p in _path_totals(cb)}
                            if len(tots) == 1:
                                nb += tots.pop()
                            if any(U.callee_name(tt) in ('null_mut', 'null') for _, tt in cb.calls(include_cleanup=False)):
                                nr = True
            if std and nm in ('null_mut', 'null') and t['dest']['local'] == 0:
                nr = True
            if std and nm in ('null_mut', 'null'):
                nr = nr or (('call', bb) in b.origins(0))
        for succ in b.term_succs(bb, unwind=False):
            ni = null_in
            if k == 'switch':
                d = U.def_rvalue(b, t['discr'])
                if d and d[0] == 'call' and U.callee_name(d[2]) == 'is_null':
                    v = U.switch_edge_value(b, bb, succ)
                    r = U.bool_outcome(b, bb, v) if v is not None else None
                    if r:
                        ni = r[1]
            if succ in path:
                continue
            stack.append((succ, nb, nr, ni, path + (succ,)))
    return out


def _owned_ptr_ty(ty):
    return ty.startswith(('std::sync::Arc<', 'std::rc::Rc<', 'std::sync::Weak<', 'std::rc::Weak<')) or U.is_refcnt_param(ty)


def rule_refcnt_siblings(fx, col):
    impls = _refcnt_impls(fx)
    want = 5 if fx.has_feature('weak') else 3
    col.floor('REFCNT-SIBLINGS', 'RefCnt impls', len(impls), want)
    # the trait's own defaults
    for nm, exp in (('inc', +1), ('dec', -1)):
        bs = [b for b in fx.lib.bodies if b.fname == 'arc_swap::ref_cnt::RefCnt::' + nm]
        if col.anchor('REFCNT-SIBLINGS', 'RefCnt::%s default' % nm, len(bs) == 1):
            tot = {p[0] for p in _path_totals(bs[0])}
            col.add('REFCNT-SIBLINGS', 'RefCnt::%s default|effect' % nm, tot == {exp}, 'default %s changes the count by %s (expected %+d)' % (nm, sorted(tot), exp))
    for st, ms in sorted(impls.items()):
        kind = st
        nullable = None
        for nm in ('into_ptr', 'as_ptr', 'from_ptr'):
            col.anchor('REFCNT-SIBLINGS', '%s::%s' % (kind, nm), nm in ms)
        for nm, b in sorted(ms.items()):
            exp = EXPECT.get(nm)
            if exp is None:
                continue
            paths = _path_totals(b)
            bad = []
            for (tot, null_ret, null_in, path) in paths:
                e = exp
                if nm in ('into_ptr', 'as_ptr') and null_ret and _null_path(b, path):
                    e = 0
                if nm == 'from_ptr' and null_in:
                    e = 0
                # an explicit `inc` / `dec` of a nullable kind: the empty value has no count to move
                if nm == 'inc' and null_ret and _null_path(b, path):
                    e = 0
                if nm == 'dec' and null_in:
                    e = 0
                if tot != e:
                    bad.append('path %s totals %+d, expected %+d' % (['bb%d' % x for x in path], tot, e))
            col.add('REFCNT-SIBLINGS', '<%s>::%s|count effect' % (kind, nm), not bad and bool(paths),
                    '; '.join(bad[:3]) or '%s: %d path(s), count effect %+d (0 on the empty-value path)' % (nm, len(paths), exp), '%s:%d' % (b.file.split('/repo/')[-1].split('/')[-1], b.line))
            # no hidden count operations
            calls = [U.callee_name(t) for _, t in b.calls(include_cleanup=False)]
            forbidden = [c for c in calls if c in ('upgrade', 'downgrade', 'clone', 'increment_strong_count', 'decrement_strong_count') and nm in ('into_ptr', 'as_ptr', 'from_ptr')]
            col.add('REFCNT-SIBLINGS', '<%s>::%s|pure conversion' % (kind, nm), not forbidden, 'calls: %s' % calls)
        # borrowing yields what conversion would: the pointer as_ptr returns is produced by the same kind of std conversion
        # as into_ptr's (into_raw / as_ptr of the std handle, or the inner kind's own method, or null) — not computed by
        # arithmetic on the handle's bits (wrong for over-aligned pointees) and not a reborrow of the pointee (`&**me`: right
        # address, but provenance over the value only, while the crate later reaches the counters through it)
        OKC = ('into_raw', 'as_ptr', 'into_ptr', 'null_mut', 'null', 'dangling', 'without_provenance_mut')
        for nm in ('as_ptr', 'into_ptr'):
            b = ms.get(nm)
            if b is None:
                continue
            thr = lambda t: [0] if U.callee_name(t) in ('cast', 'cast_mut', 'cast_const', 'unwrap_or_else', 'unwrap_or', 'map_or_else') else None
            src = b.origins(0, through_calls=thr, binops=True)
            def mapped_conversion(t):
                # `opt.map(T::into_ptr)` / `.map(|x| T::as_ptr(x))`: the inner kind's own conversion applied under the Option
                if U.callee_name(t) not in ('map', 'map_or', 'map_or_else', 'and_then') or 'option::Option' not in t['callee'].get('path', ''):
                    return False
                if U.callee_name(t) == 'map_or':
                    # `opt.map_or(ptr::null_mut(), T::as_ptr)`: the default operand must be the null pointer
                    d0 = U.def_rvalue(b, t['args'][1]) if len(t['args']) > 2 else None
                    if not (d0 and d0[0] == 'call' and U.callee_name(d0[2]) in ('null_mut', 'null')):
                        return False
                for a in t['args'][1:]:
                    if a['k'] == 'const' and re.search(r'RefCnt>::(into_ptr|as_ptr)$', a['c'].get('fn_pretty') or a['c'].get('text') or ''):
                        return True
                    d = U.def_rvalue(b, a)
                    if d and d[0] == 'rv' and d[3]['k'] == 'aggregate' and d[3].get('closure'):
                        cb = fx.lib.by_key.get(d[3]['closure'])
                        if cb is not None and any(U.callee_name(tt) in ('into_ptr', 'as_ptr') and (tt['callee'].get('trait') or '').endswith('ref_cnt::RefCnt') for _, tt in cb.calls(include_cleanup=False)):
                            return True
                return False
            def wrapper_agg(o):
                # `Some(p)` / `Ok(p)` built on the way (a spelled-out `map`): transparent, its payload is among the sources already
                if o[0] != 'agg':
                    return False
                st = b.stmts(o[1])[o[2]] if o[2] < len(b.stmts(o[1])) else None
                return bool(st) and st['k'] == 'assign' and st['rv'].get('adt') in ('core::option::Option', 'core::result::Result')
            own_conv = lambda t: U.callee_name(t) in ('into_ptr', 'as_ptr') and (t['callee'].get('trait') or '').endswith('ref_cnt::RefCnt') and kind.startswith('std::option::Option')
            bad = [o for o in src if not (o[0] == 'call' and (U.callee_name(b.term(o[1])) in OKC or mapped_conversion(b.term(o[1])) or own_conv(b.term(o[1]))))
                   and o[0] != 'const' and not wrapper_agg(o)]
            col.add('REFCNT-SIBLINGS', '<%s>::%s|pointer produced by the std conversion' % (kind, nm), bool(src) and not bad,
                    'sources of the returned pointer: %s' % sorted((o[0], U.callee_name(b.term(o[1])) if o[0] == 'call' else o[1]) for o in src))
        # null symmetry
        prod = {}
        for nm in ('into_ptr', 'as_ptr'):
            b = ms.get(nm)
            if b is None:
                continue
            prod[nm] = _null_condition(fx, b)
        fb = ms.get('from_ptr')
        from_null = False
        guarded = True
        if fb is not None:
            tests = [bb for bb, t in fb.calls(include_cleanup=False) if U.callee_name(t) == 'is_null']
            from_null = bool(tests)
            # the inner from_raw / from_ptr only on the non-null outcome
            for bb, t in fb.calls(include_cleanup=False):
                if U.callee_name(t) in ('from_raw', 'from_ptr'):
                    g = [U.bool_outcome(fb, sbb, val) for (sbb, succ, val) in U.dominating_branches(fb, bb, unwind=False)]
                    g = [x for x in g if x and x[0] and x[0][0] == 'call' and U.callee_name(x[0][2]) == 'is_null']
                    if from_null and not (g and all(x[1] is False for x in g)):
                        guarded = False
        if 'into_ptr' in prod and 'as_ptr' in prod:
            sym = (prod['into_ptr'] is not None) == (prod['as_ptr'] is not None) == from_null
            same_pred = prod['into_ptr'] == prod['as_ptr']
            col.add('REFCNT-SIBLINGS', '<%s>|null symmetry' % kind, sym and same_pred and guarded,
                    'null is produced in into_ptr when %s, in as_ptr when %s; from_ptr tests is_null: %s, inner conversion only when non-null: %s'
                    % (prod['into_ptr'], prod['as_ptr'], from_null, guarded))
        # every std conversion / count operation inside the impl for kind K is K's own (`sync::Weak::from_raw` in the impl for
        # sync::Weak — `rc::Weak::from_raw` type-checks on the same `*const T` and decrements the atomic counter non-atomically), and
        # the pointee is never moved out of its allocation (`Arc::into_inner`, `try_unwrap`, `unwrap_or_clone`: the destructor would
        # run on a copy at another address, after the allocation is gone — RefCnt's documented "should be Pin" contract)
        fam = None
        for pre in ('std::sync::Arc<', 'std::rc::Rc<', 'std::sync::Weak<', 'std::rc::Weak<'):
            if st.startswith(pre):
                fam = pre[:-1]
        for nm, b in sorted(ms.items()):
            for bb, t in b.calls(include_cleanup=False):
                pth = t['callee'].get('path', '')
                m_ = re.match(r'^(std::(?:sync|rc)::(?:Arc|Rc|Weak))::<', pth)
                if fam and m_:
                    col.add('REFCNT-SIBLINGS', '<%s>::%s|%s is the kind\'s own' % (kind, nm, U.callee_name(t)), m_.group(1) == fam,
                            '%s called in the impl for %s' % (pth, fam), b.loc(bb))
                if m_ and U.callee_name(t) in ('into_inner', 'try_unwrap', 'unwrap_or_clone', 'make_mut', 'get_mut', 'get_mut_unchecked'):
                    col.fail('REFCNT-SIBLINGS', '<%s>::%s|pointee stays in its allocation' % (kind, nm),
                             '%s moves (or hands out exclusively) the pointee: the value must be destroyed in place by the drop of the last handle' % pth, b.loc(bb))
        # the emptiness test of a Weak kind compares the handle with a FRESH empty one (`x.ptr_eq(&Weak::new())`): a comparison of
        # the handle with itself, or with anything else, makes every (or an arbitrary) value empty
        for nm in ('into_ptr', 'as_ptr'):
            b = ms.get(nm)
            if b is None:
                continue
            for bb, t in b.calls(include_cleanup=False):
                if U.callee_name(t) == 'ptr_eq' and 'Weak' in t['callee'].get('path', '') and len(t['args']) == 2:
                    a0, a1 = b.origins(t['args'][0]), b.origins(t['args'][1])
                    fresh = lambda o: any(x[0] == 'call' and U.callee_name(b.term(x[1])) == 'new' and 'Weak' in b.term(x[1])['callee'].get('path', '') for x in o)
                    mine = lambda o: any(x[0] == 'arg' for x in o)
                    ok = (fresh(a0) and mine(a1) and not mine(a0)) or (fresh(a1) and mine(a0) and not mine(a1))
                    col.add('REFCNT-SIBLINGS', '<%s>::%s|empty means equal to a fresh Weak::new()' % (kind, nm), ok,
                            'ptr_eq compares %s with %s' % (sorted(a0, key=str), sorted(a1, key=str)), b.loc(bb))
        if st.startswith('std::option::Option<'):
            b = ms.get('from_ptr')
            if b is not None:
                col.add('REFCNT-SIBLINGS', '<%s>|Base = T::Base' % kind, 'RefCnt>::Base' in b.local_ty(1), 'from_ptr takes %s' % b.local_ty(1))
    # a container of Weak never upgrades
    ups = []
    ctl = 0
    for b in fx.lib.bodies:
        for bb, t in b.calls():
            if U.callee_name(t) == 'upgrade':
                ups.append(b.loc(bb))
            if U.callee_name(t) == 'ptr_eq':
                ctl += 1
    col.add('REFCNT-SIBLINGS', 'crate|no upgrade', not ups, 'calls to upgrade(): %s' % ups)
    col.add('REFCNT-SIBLINGS', 'crate|positive control (ptr_eq found)', ctl >= (1 if not fx.has_feature('weak') else 5), 'the same call enumeration finds %d ptr_eq call(s)' % ctl)


def _null_condition(fx, b):
    """when does this conversion produce the null pointer? 'on None' (Option-shaped), ('pred', name, polarity), or None"""
    lib = fx.lib
    # Option shape: .map(..).unwrap_or_else(null_mut) with the null in a fn item or a closure
    for bb, t in b.calls(include_cleanup=False):
        if U.callee_name(t) in ('unwrap_or_else', 'unwrap_or', 'map_or', 'map_or_else') and 'option::Option' in t['callee'].get('path', ''):
            for a in t['args']:
                if a['k'] == 'const' and 'null' in (a['c'].get('fn_pretty') or ''):
                    return 'on None'
                d = U.def_rvalue(b, a)
                if d and d[0] == 'rv' and d[3]['k'] == 'aggregate' and d[3].get('closure'):
                    cb = lib.by_key.get(d[3]['closure'])
                    if cb is not None and any(U.callee_name(tt) in ('null_mut', 'null') for _, tt in cb.calls(include_cleanup=False)):
                        return 'on None'
                if d and d[0] == 'call' and U.callee_name(d[2]) in ('null_mut', 'null'):
                    return 'on None'
    for bb, t in b.calls(include_cleanup=False):
        if U.callee_name(t) in ('null_mut', 'null'):
            for f in U.dominating_facts(b, bb):
                if f[0] == 'variant' and b.local_ty(f[1]).replace('&', '').strip().startswith('std::option::Option<') and f[2] == 0:
                    return 'on None'
                if f[0] == 'bool' and f[1] and f[1][0] == 'call':
                    return ('pred', U.callee_name(f[1][2]), f[2])
            return ('unconditional',)
    return None


def _null_path(b, path):
    for bb in path:
        t = b.term(bb)
        if t['k'] == 'call' and U.callee_name(t) in ('null_mut', 'null'):
            return True
    return False


def _null_polarity(b):
    """outcome of the guarding predicate under which null is produced"""
    for bb, t in b.calls(include_cleanup=False):
        if U.callee_name(t) in ('null_mut', 'null'):
            for (sbb, succ, val) in U.dominating_branches(b, bb, unwind=False):
                r = U.bool_outcome(b, sbb, val)
                if r and r[0] and r[0][0] == 'call':
                    return '%s==%s' % (U.callee_name(r[0][2]), r[1])
    return None


# pointer kinds whose raw pointer can coincide for the SAME allocation although their reference counts differ
# (trusted facts about alloc: Arc::as_ptr(&a) == Weak::as_ptr(&Arc::downgrade(&a)); likewise Rc / rc::Weak)
COUNT_DOMAIN = {
    'std::sync::Arc<T>': ('arc', 'strong'), 'std::sync::Weak<T>': ('arc', 'weak'),
    'std::rc::Rc<T>': ('rc', 'strong'), 'std::rc::Weak<T>': ('rc', 'weak'),
}


def rule_nested_empty(fx, col):
    """C15 "round trip yields the same object ... for all nestings accepted by the trait": `impl<T: RefCnt> RefCnt for Option<T>`
    maps None to the null pointer and accepts ANY inner kind, also one that maps a value of its own to null (another Option, a
    Weak with its dangling value). Then Some(<inner empty>) and None are the same raw pointer and come back as None."""
    impls = _refcnt_impls(fx)
    opt = [st for st in impls if st.startswith('std::option::Option<')]
    if not col.anchor('NESTED-EMPTY', 'RefCnt for Option<T>', len(opt) == 1):
        return
    imp = [i for i in fx.lib.impls if (i.get('trait') or '').endswith('ref_cnt::RefCnt') and (i.get('self_ty') or '').startswith('std::option::Option<')]
    preds = imp[0]['predicates'] if imp else []
    only_refcnt = [p_ for p_ in preds if p_.startswith('T: ') and not p_.endswith('Sized')] == ['T: ref_cnt::RefCnt']
    nullable = []
    for st, ms in sorted(impls.items()):
        b = ms.get('into_ptr')
        if b is not None and _null_condition(fx, b) is not None:
            nullable.append(st)
    col.floor('NESTED-EMPTY', 'kinds that map a value to null', len(nullable), 1)
    for st in nullable:
        col.add('NESTED-EMPTY', 'Option<%s>|Some(empty) distinct from None' % st, not only_refcnt,
                'RefCnt for Option<T> requires only T: RefCnt (%s), and %s maps one of its own values to null: Some(<that value>) and None share the null pointer and '
                'the round trip returns None' % (preds, st))


def rule_kind_disjoint(fx, col):
    """C12 / C15: debts are keyed by the bare pointer value (PAY-CAS). Two storable pointer kinds whose raw pointers can be
    equal for one allocation but whose inc/dec move different counters can pay each other's debts with the wrong count."""
    impls = _refcnt_impls(fx)
    doms = {}
    for st in impls:
        d = COUNT_DOMAIN.get(st)
        if d:
            doms.setdefault(d[0], set()).add(d[1])
    any_family = False
    for fam, counters in sorted(doms.items()):
        any_family = True
        col.add('KIND-DISJOINT', '%s family|one counter per address' % fam, len(counters) == 1,
                'storable kinds of the %s family use the counters %s for the same raw pointer; a writer of one kind pays the debts of the other '
                'with the wrong counter (the debt slots hold only the address)' % (fam, sorted(counters)))
    col.anchor('KIND-DISJOINT', 'RefCnt impls for std pointer kinds', any_family)
