"""Fact extraction (drives cargo + the rustc_private driver) and cached loading.

Every extraction compiles $VERIF_REPO's current working tree with the real build flags of the
chosen configuration; the cache key is a content hash of the tree, so any edit forces a rebuild.
"""
import hashlib
import json
import os
import shutil
import subprocess
import sys
import tempfile
import time
from concurrent.futures import ThreadPoolExecutor

from . import mir

VERIF = os.path.dirname(os.path.dirname(os.path.abspath(__file__)))
REPO = os.environ.get('VERIF_REPO', '/repo')
DRIVER = os.path.join(VERIF, 'driver', 'target', 'release', 'asv-driver')
CACHE = os.environ.get('VERIF_CACHE') or os.path.join(VERIF, '.cache')

# id -> (features, release)
CONFIGS = {
    'D': ('', False),
    'A': ('weak,internal-test-strategies,serde,experimental-strategies', False),
    'W': ('weak', False),
    'T': ('internal-test-strategies', False),
    'S': ('serde', False),
    'X': ('experimental-thread-local', False),
    'Dr': ('', True),
}
QUICK = ['D', 'A']
THOROUGH = ['D', 'A', 'W', 'T', 'S', 'X', 'Dr']


def _hash_tree():
    h = hashlib.sha256()
    paths = []
    for root, dirs, files in os.walk(os.path.join(REPO, 'src')):
        dirs.sort()
        for f in sorted(files):
            paths.append(os.path.join(root, f))
    for f in ('Cargo.toml', 'Cargo.lock', 'build.rs'):
        p = os.path.join(REPO, f)
        if os.path.exists(p):
            paths.append(p)
    paths.append(os.path.join(VERIF, 'roots', 'src', 'lib.rs'))
    paths.append(os.path.join(VERIF, 'roots', 'Cargo.toml.in'))
    paths.append(DRIVER)
    for p in paths:
        h.update(p.encode())
        with open(p, 'rb') as fh:
            h.update(fh.read())
    return h.hexdigest()[:24]


_TREE_HASH = None


def tree_hash():
    global _TREE_HASH
    if _TREE_HASH is None:
        _TREE_HASH = _hash_tree()
    return _TREE_HASH


def sysroot():
    return subprocess.check_output(['rustc', '+nightly', '--print', 'sysroot'], text=True).strip()


class ExtractionError(Exception):
    pass


def extract(cfg):
    """Return directory with arc_swap.local.json, roots.local.json, roots.mono.json for cfg."""
    if not os.path.exists(DRIVER):
        raise ExtractionError('driver not built: run ./setup.sh (%s missing)' % DRIVER)
    out = os.path.join(CACHE, tree_hash(), cfg)
    marker = os.path.join(out, 'ok.json')
    if os.path.exists(marker):
        return out
    os.makedirs(os.path.join(CACHE, tree_hash()), exist_ok=True)
    import fcntl
    with open(os.path.join(CACHE, tree_hash(), cfg + '.lock'), 'w') as lk:
        fcntl.flock(lk, fcntl.LOCK_EX)
        if os.path.exists(marker):
            return out
        return _extract_locked(cfg, out, marker)


def _extract_locked(cfg, out, marker):
    feats, release = CONFIGS[cfg]
    scratch = tempfile.mkdtemp(prefix='asv-%s-' % cfg)
    try:
        rdir = os.path.join(scratch, 'roots')
        os.makedirs(os.path.join(rdir, 'src'))
        fdir = os.path.join(scratch, 'facts')
        os.makedirs(fdir)
        shutil.copy(os.path.join(VERIF, 'roots', 'src', 'lib.rs'), os.path.join(rdir, 'src', 'lib.rs'))
        tmpl = open(os.path.join(VERIF, 'roots', 'Cargo.toml.in')).read().replace('@REPO@', os.path.abspath(REPO))
        open(os.path.join(rdir, 'Cargo.toml'), 'w').write(tmpl)
        lock = os.path.join(REPO, 'Cargo.lock')
        if os.path.exists(lock):
            shutil.copy(lock, os.path.join(rdir, 'Cargo.lock'))
        env = dict(os.environ)
        env['LD_LIBRARY_PATH'] = os.path.join(sysroot(), 'lib') + ':' + env.get('LD_LIBRARY_PATH', '')
        env['ASV_FACTS_DIR'] = fdir
        env['RUSTFLAGS'] = '-Zmir-opt-level=0 -Zalways-encode-mir -Awarnings'
        env['RUSTC_WRAPPER'] = DRIVER
        env['CARGO_TARGET_DIR'] = os.path.join(scratch, 'target')
        env['CARGO_NET_OFFLINE'] = 'true'
        env.pop('RUSTC_WORKSPACE_WRAPPER', None)
        cmd = ['cargo', '+nightly', 'check', '--offline', '--lib']
        if feats:
            cmd += ['--features', feats]
        if release:
            cmd += ['--release']
        t0 = time.time()
        p = subprocess.run(cmd, cwd=rdir, env=env, stdout=subprocess.PIPE, stderr=subprocess.STDOUT, text=True)
        if p.returncode != 0:
            raise ExtractionError('fact extraction failed for config %s (does the tree compile?):\n%s' % (cfg, p.stdout[-6000:]))
        need = ['arc_swap.local.json', 'roots.local.json', 'roots.mono.json']
        for f in need:
            if not os.path.exists(os.path.join(fdir, f)):
                raise ExtractionError('fact file %s was not produced for config %s (driver skipped?)\n%s' % (f, cfg, p.stdout[-3000:]))
        os.makedirs(out, exist_ok=True)
        for f in need:
            shutil.move(os.path.join(fdir, f), os.path.join(out, f))
        json.dump({'cfg': cfg, 'features': feats, 'release': release, 'wall_s': round(time.time() - t0, 2),
                   'tree_hash': tree_hash(), 'repo': os.path.abspath(REPO)}, open(marker, 'w'))
        return out
    finally:
        shutil.rmtree(scratch, ignore_errors=True)


def extract_all(cfgs):
    with ThreadPoolExecutor(max_workers=min(len(cfgs), 8)) as ex:
        return dict(zip(cfgs, ex.map(extract, cfgs)))


def prune_cache(keep=3):
    if not os.path.isdir(CACHE) or os.environ.get('VERIF_KEEP_CACHE'):
        return
    ents = [os.path.join(CACHE, d) for d in os.listdir(CACHE)]
    ents = [d for d in ents if os.path.isdir(d)]
    ents.sort(key=os.path.getmtime, reverse=True)
    for d in ents[keep:]:
        if os.path.basename(d) != tree_hash():
            shutil.rmtree(d, ignore_errors=True)


class Mono:
    def __init__(self, path, preloaded=None):
        self.j = preloaded if preloaded is not None else mir.normalise(json.load(open(path)))
        self.inst = self.j['instances']
        self.roots = {r['path']: r['instance'] for r in self.j['roots']}

    def reach(self, start_ids, cut=None):
        """instances reachable from the start ids; cut(inst_from, edge, inst_to) -> True to drop an edge"""
        seen = set(start_ids)
        st = list(start_ids)
        while st:
            i = st.pop()
            inst = self.inst[i]
            for e in inst.get('calls', []):
                to = e.get('to')
                if to is None or to in seen:
                    continue
                if cut and cut(inst, e, self.inst[to]):
                    continue
                seen.add(to)
                st.append(to)
        return seen


_REF = None


def reference_shape():
    global _REF
    if _REF is None:
        p = os.path.join(VERIF, 'rules', 'tables', 'reference_shape.json')
        _REF = json.load(open(p)) if os.path.exists(p) and not os.environ.get('VERIF_NO_CANON') else False
    return _REF


class Facts:
    """All facts of one configuration (names canonicalised against the reference tree, unknown helpers inlined)."""

    def __init__(self, cfg):
        from . import canon
        self.cfg = cfg
        d = extract(cfg)
        self.dir = d
        mir.set_repo_prefix(os.path.abspath(REPO))
        lib_j = mir.normalise(json.load(open(os.path.join(d, 'arc_swap.local.json'))))
        self._roots_j = None
        self._mono_j = None
        self.rewriter = None
        self.alignment = None
        helper_keys = None
        closure_keys = None
        ref = reference_shape()
        if ref:
            al = canon.Alignment(canon.shape_of(lib_j), ref)
            self.alignment = al
            self.rewriter = canon.Rewriter(al)
            self.rewriter.rewrite(lib_j)
            helper_keys = {self.rewriter._k(k) for k in al.unmatched_fns}
            closure_keys = {self.rewriter._k(k) for k in al.unmatched_closures}
        known = json.load(open(os.path.join(VERIF, 'rules', 'tables', 'known_functions.json')))['names']
        self.lib = mir.Crate(None, known_names=set(known), preloaded=lib_j, helper_keys=helper_keys, closure_keys=closure_keys)
        from . import util as _U
        _U.note_refcnt_params(self.lib)
        self._roots = None
        self._mono = None
        self.meta = json.load(open(os.path.join(d, 'ok.json')))

    @property
    def roots(self):
        if self._roots is None:
            j = mir.normalise(json.load(open(os.path.join(self.dir, 'roots.local.json'))))
            if self.rewriter:
                self.rewriter.rewrite(j)
            self._roots = mir.Crate(None, preloaded=j)
        return self._roots

    @property
    def mono(self):
        if self._mono is None:
            j = mir.normalise(json.load(open(os.path.join(self.dir, 'roots.mono.json'))))
            if self.rewriter:
                self.rewriter.rewrite(j)
            self._mono = Mono(None, preloaded=j)
        return self._mono

    def has_feature(self, f):
        return f in self.lib.features


_FACTS = {}


def facts(cfg):
    if cfg not in _FACTS:
        _FACTS[cfg] = Facts(cfg)
    return _FACTS[cfg]
