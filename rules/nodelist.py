"""Node-list rules (C11): REUSE-FIRST (+ INUSE-FSM, COOLDOWN-OWNED, RAII-SPAN, NEXT-ONCE elsewhere)."""
from . import util as U
from . import ordering as O


def rule_reuse_first(fx, col):
    cx = O.ctx(fx)
    lib = fx.lib
    # allocation sites of Node
    allocs = []
    for b in lib.bodies:
        for bb, t in b.calls(include_cleanup=False):
            c = t['callee']
            if ('boxed::Box' in c.get('path', '') or 'boxed::Box<' in (c.get('self_ty') or '')) and c.get('name') in ('default', 'new') \
                    and 'debt::list::Node' in (c.get('pretty') or ''):
                allocs.append((b, bb))
    col.floor('REUSE-FIRST', 'Node allocation sites', len(allocs), 1)
    for (ab, abb) in allocs:
        fn = ab.fname
        ok = False
        why = 'allocation is not the fallback of a failed reuse attempt'
        # the allocating body is a closure of, or a named function mentioned by, the body that tried to reuse first
        parents = [lib.by_key.get(ab.j.get('parent'))] if ab.kind == 'Closure' else \
            [p for p in lib.bodies if any(cb is ab for _, cb in U.fnitem_mentions(lib, p))]
        for parent in [p for p in parents if p is not None]:
            for bb, t in parent.calls(include_cleanup=False):
                if U.callee_name(t) == 'unwrap_or_else' and 'option::Option' in t['callee'].get('path', ''):
                    # second arg is our closure / fn item
                    a1 = t['args'][1]
                    d = U.def_rvalue(parent, a1)
                    is_ours = (d and d[0] == 'rv' and d[3]['k'] == 'aggregate' and d[3].get('closure') == ab.key) or \
                        (a1['k'] == 'const' and a1['c'].get('fn') == ab.key)
                    if not is_ours:
                        continue
                    # first arg: result of a traverse whose closure claims a node
                    for o in parent.origins(t['args'][0]):
                        if o[0] == 'call' and U.callee_name(parent.term(o[1])) == 'traverse':
                            tt = parent.term(o[1])
                            cd = U.def_rvalue(parent, tt['args'][0])
                            a0 = tt['args'][0]
                            if a0['k'] == 'const' and a0['c'].get('fn') in lib.by_key:
                                cd = ('rv', None, None, {'closure': a0['c']['fn']})  # a named function handed to traverse
                            if cd and cd[0] == 'rv' and cd[3].get('closure'):
                                cb = lib.by_key.get(cd[3]['closure'])
                                claims = [s for s in cx.summ.sites_by_body.get(cb.key, ()) if s.cls == 'in_use' and s.op.startswith('compare_exchange')
                                          and U.int_of(cb, s.arg(1)) == cx.NODE_UNUSED and U.int_of(cb, s.arg(2)) == cx.NODE_USED] if cb else []
                                if claims:
                                    ok = True
                                    why = 'Box<Node> is allocated only in the unwrap_or_else fallback of the claiming traverse (%s)' % claims[0].loc
                                    # cooldown check before the claim
                                    # a COOLDOWN -> UNUSED release attempt (directly or in a callee) precedes the claim
                                    def releases(s):
                                        # the release attempt: an exchange out of COOLDOWN (to UNUSED directly, or to the
                                        # exclusive checking state whose verdict store follows)
                                        return s.cls == 'in_use' and s.op.startswith('compare_exchange') and \
                                            U.int_of(s.body, s.arg(1)) == cx.NODE_COOLDOWN and U.int_of(s.body, s.arg(2)) not in (None, cx.NODE_USED, cx.NODE_COOLDOWN)
                                    cc = [x for x, t3, b3 in cx.local_calls(cb) if cx.summ.has_site(b3.key, releases)]
                                    own = [s.bb for s in cx.summ.sites_by_body.get(cb.key, ()) if releases(s)]
                                    okc = (bool(cc) and all(cb.dominates(x, claims[0].bb) and x != claims[0].bb for x in cc)) or \
                                        (bool(own) and all(cb.reach_from(x, unwind=False) & {claims[0].bb} for x in own) and
                                         not any(x in cb.reach_from(cb.term(claims[0].bb)['target'], unwind=False) for x in own))
                                    col.add('REUSE-FIRST', '%s|check_cooldown before claim' % cb.fname, okc,
                                            'each visited node gets a chance to leave cooldown before the claim attempt')
                                    # Some(node) returned only on the success outcome
                                    from .protect import _on_cas_success
                                    somes = []
                                    for x in range(cb.n):
                                        for st in cb.stmts(x):
                                            if st['k'] == 'assign' and st['dest']['local'] == 0 and st['rv']['k'] == 'aggregate' and st['rv'].get('variant') == 'Some':
                                                somes.append(x)
                                    by_comb = False
                                    if not somes:
                                        # `exchange.ok().map(|_| node)` / `.is_ok().then(..)`: Some exactly on the success outcome
                                        thr2 = lambda t2: [0] if U.callee_name(t2) in ('ok', 'map', 'is_ok', 'then', 'then_some', 'and_then') else None
                                        src = {o for o in cb.origins(0, through_calls=thr2) if o[0] != 'const'}
                                        by_comb = src == {('call', claims[0].bb)}
                                    col.add('REUSE-FIRST', '%s|claims only on success' % cb.fname,
                                            by_comb or (bool(somes) and all(_on_cas_success(cb, claims[0], x) for x in somes)), 'a node is returned only when its UNUSED->USED exchange succeeded')
        col.add('REUSE-FIRST', '%s|allocate only after failed reuse' % fn, ok, why, ab.loc(abb))
        # init-before-publish
        pubs = [s for s in cx.summ.sites_by_body.get(ab.key, ()) if s.cls == 'list_head' and s.op.startswith('compare_exchange')]
        inits = [bb for bb, t, cb in cx.local_calls(ab) if cb.fname.endswith('helping::Slots::init')]
        good = bool(pubs) and bool(inits) and all(ab.dominates(i, p.bb) and i != p.bb for i in inits for p in pubs)
        col.add('REUSE-FIRST', '%s|init before publish' % fn, good, 'helping.init() (space_offer -> own envelope) dominates the publishing compare_exchange on LIST_HEAD')
        # the published pointer is the freshly leaked node
        fresh = bool(pubs) and all(any(o[0] == 'call' and U.callee_name(ab.term(o[1])) == 'leak' for o in ab.origins(p.arg(2))) for p in pubs)
        col.add('REUSE-FIRST', '%s|publishes the fresh node' % fn, fresh, 'the value installed in LIST_HEAD is the node just leaked')
        # next written before publish (in the same iteration)
        wr = []
        for bb in range(ab.n):
            for i, st in enumerate(ab.stmts(bb)):
                if st['k'] == 'assign' and any(e['k'] == 'field' and e.get('adt') == 'arc_swap::debt::list::Node' and e.get('name') == 'next' for e in st['dest']['proj']):
                    wr.append((bb, i, st))
        good = bool(wr) and bool(pubs) and all(any(ab.pos_dominates((bb, i), ab.term_pos(p.bb)) for bb, i, _ in wr) for p in pubs)
        # and next := the expected head of the exchange
        same = bool(wr) and bool(pubs) and all(ab.origins(st['rv'].get('op')) == ab.origins(p.arg(1)) for _, _, st in wr for p in pubs)
        # or the exchange expects what `next` holds right now: `compare_exchange(node.next as *mut _, node, ..)`, the expected value
        # read from the field in the block of the exchange itself, after the last write of the field there
        def reads_next(p):
            op = p.arg(1)
            for _ in range(4):
                if op is None or op.get('k') not in ('copy', 'move'):
                    return False
                pl = op['place']
                if any(e['k'] == 'field' and e.get('adt') == 'arc_swap::debt::list::Node' and e.get('name') == 'next' for e in pl['proj']):
                    return True
                ds = [x for x in ab.assigns().get(pl['local'], ()) if not x[4]]
                if pl['proj'] or len(ds) != 1 or ds[0][2] != 'stmt' or ds[0][0] != p.bb or ds[0][3]['k'] not in ('use', 'cast'):
                    return False
                if any(bb == p.bb and i > ds[0][1] for bb, i, _ in wr):
                    return False
                op = ds[0][3]['op']
            return False
        from_field = bool(wr) and bool(pubs) and all(reads_next(p) for p in pubs)
        # a retried exchange expects a *new* head: on every path to the exchange the last write of `next` is younger than
        # the last assignment of the expected-head variable (forward must-analysis: LINKED after `next = head`, lost when
        # `head` is assigned)
        def root_local(op):
            seen = 0
            while op is not None and op.get('k') in ('copy', 'move') and not op['place']['proj'] and seen < 6:
                l = op['place']['local']
                ds = [x for x in ab.assigns().get(l, ()) if not x[4]]
                if len(ds) == 1 and ds[0][2] == 'stmt' and ds[0][3]['k'] == 'use' and ds[0][3]['op'].get('k') in ('copy', 'move') and not ds[0][3]['op']['place']['proj']:
                    op = ds[0][3]['op']
                    seen += 1
                    continue
                return l
            return None
        in_iter = True
        for p in pubs:
            H = root_local(p.arg(1))
            if H is None:
                in_iter = False
                continue
            # state: (linked, value last written to `next`, value last assigned to the expected-head variable H); a value is named by
            # the local it was copied from ('H' = whatever H holds at that moment). `next = head` links; so does assigning BOTH from
            # the same value in either order (`head = newer; node.next = newer`); assigning only one of them unlinks.
            BOT = ('?',)
            def vid(op):
                r_ = root_local(op)
                return ('loc', r_) if r_ is not None else BOT
            def stmt_fn(st, bb, i, s_):
                linked, nv, hv = st
                if s_['k'] == 'assign':
                    if any(e['k'] == 'field' and e.get('adt') == 'arc_swap::debt::list::Node' and e.get('name') == 'next' for e in s_['dest']['proj']):
                        v = vid(s_['rv'].get('op'))
                        if v == ('loc', H):
                            return (True, hv, hv)
                        return (v != BOT and v == hv, v, hv)
                    if s_['dest']['local'] == H and not s_['dest']['proj']:
                        v = vid(s_['rv'].get('op')) if s_['rv']['k'] in ('use', 'cast') else BOT
                        if v == ('loc', H):
                            return st
                        return (v != BOT and v == nv, nv, v)
                return st
            def term_fn(st, bb, t):
                if t['k'] == 'call' and t['dest']['local'] == H and not t['dest']['proj']:
                    st2 = (False, st[1], ('call', bb))
                else:
                    st2 = st
                return {x: st2 for x in ab.term_succs(bb, False)}
            def meet(a_, b_):
                return (a_[0] and b_[0], a_[1] if a_[1] == b_[1] else BOT, a_[2] if a_[2] == b_[2] else BOT)
            from . import dataflow as DF
            ins, before = DF.forward(ab, (False, BOT, BOT), stmt_fn, term_fn, meet, unwind=False)
            in_iter = in_iter and bool(before.get(p.bb)) and before[p.bb][0] is True
        col.add('REUSE-FIRST', '%s|next = expected head' % fn, (good and in_iter) or (good and from_field),
                'node.next is set to the head the exchange expects, before the exchange' + ('' if in_iter else
                ' — but NOT inside the retry loop: after a failed exchange the new expected head is no longer what next points to (nodes added in between are unlinked)'))
    # init makes space_offer point at the own envelope: ENVELOPE-PROVENANCE checks the value


def rule_node_bound(fx, col):
    """C11 "bookkeeping ... is bounded by the peak number of threads alive at once":
    (1) a node released by an exited thread is claimable again only if NO writer is inside it at the instant a claiming thread looks
        (the cooldown verdict); Node::get neither waits (it must not: lock-freedom) nor retries, it allocates a fresh node, and
        nodes are never freed. Nothing bounds how often that happens.
    (2) the thread-local that owns the LocalNode must run its destructor at thread exit (std's `thread_local!`); a bare
        `#[thread_local]` static never does, so no node is ever released."""
    cx = O.ctx(fx)
    lib = fx.lib
    # (1)
    gets = [b for b in lib.bodies if b.fname == 'arc_swap::debt::list::Node::get']
    if col.anchor('NODE-BOUND', 'Node::get', len(gets) == 1):
        cond = []
        for s_ in cx.sites:
            if s_.cls == 'active_writers' and s_.op == 'load':
                # the count read decides whether a released node becomes claimable
                rel = [o for o in cx.summ.sites_by_body.get(s_.body.key, ()) if o.cls == 'in_use' and o.op in ('store', 'compare_exchange', 'compare_exchange_weak')]
                if rel:
                    cond.append(s_)
        allocs = [1 for b in lib.bodies for bb, t in b.calls(include_cleanup=False) if U.callee_name(t) == 'leak' and 'boxed::Box' in t['callee'].get('path', '') and b.fname.startswith('arc_swap::debt::list::Node::get')]
        col.add('NODE-BOUND', 'Node::get|a released node is always reusable', not (cond and allocs),
                'a released (cooling) node is claimable only when active_writers == 0 at the instant of the look (%s); otherwise Node::get allocates a new, never freed node: '
                'the total is not bounded by the threads alive (measured: 4 nodes for 2, 10 for 5, 20 for 13 live threads under writers)' % [c.loc for c in cond],
                cond[0].loc if cond else '')
    # (2)
    tls = [s_ for s_ in lib.statics if s_.get('thread_local') and 'LocalNode' in s_.get('ty', '')]
    managed = lambda x: 'thread::local_impl' in x['ty'] or '__RUST_STD_INTERNAL' in x['pretty'] or 'LocalKey<' in x['ty']
    keys = [s_ for s_ in tls if managed(s_)]
    if col.anchor('NODE-BOUND', 'the thread-local LocalNode', bool(tls), 'statics: %s' % [(x['pretty'], x['ty'], x.get('thread_local')) for x in lib.statics]):
        bare = [x['pretty'] for x in tls if not managed(x)]
        col.add('NODE-BOUND', 'THREAD_HEAD|destructor runs at thread exit', not (bare and not keys),
                'LocalNode releases its node in Drop (start_cooldown); %s' % ('it lives in a bare #[thread_local] static %s, which has no destructor: no node of an exited thread is ever released '
                                                                        '(measured: 500 nodes for 500 sequential threads)' % bare if bare and not keys else 'it lives in a std LocalKey, whose destructor runs at thread exit'))

