"""API-shape rules: STORE-IS-SWAP, CAS-SHAPE, ASRAW-SIBLINGS, RCU-SHAPE, API-AGNOSTIC, LOCK-SPAN,
CACHE-SHAPE, DEREF-PURE / GUARD-OWNED / MUST-LOAD, SERDE-SHAPE, NO-STASH (DESIGN.md §3.7)."""
import re

from . import util as U
from . import ordering as O
from . import progress as P
from .protect import _on_cas_success, _call_bbs

SEALED = 'arc_swap::strategy::sealed'


def _body(fx, fname):
    bs = [b for b in fx.lib.bodies if b.fname == fname]
    return bs[0] if len(bs) == 1 else None


def _lib_calls(fx, b, include_cleanup=False):
    """calls to library functions or sealed-trait methods (i.e. not core/alloc/std leaves)"""
    out = []
    for bb, t in b.calls(include_cleanup=include_cleanup):
        c = t['callee']
        if c.get('krate') == 'arc_swap':
            out.append((bb, t))
    return out


def _deref_through(t):
    if U.callee_name(t) in ('deref', 'borrow', 'as_ref', 'deref_mut'):
        return [0]
    return None


# --------------------------------------------------------------------------------------------

def rule_store_is_swap(fx, col):
    b = _body(fx, 'arc_swap::ArcSwapAny::store')
    if not col.anchor('STORE-IS-SWAP', 'ArcSwapAny::store', b is not None):
        return
    lc = _lib_calls(fx, b)
    ok = len(lc) == 1 and U.callee_name(lc[0][1]) == 'swap'
    if not ok and _store_spelled_out(fx, col, b, lc):
        return
    col.add('STORE-IS-SWAP', 'store|only swap', ok, 'library calls in store: %s' % [U.callee_name(t) for _, t in lc])
    if ok:
        bb, t = lc[0]
        a_ok = b.origins(t['args'][0]) == {('arg', 1)} and b.origins(t['args'][1]) == {('arg', 2)}
        col.add('STORE-IS-SWAP', 'store|swap(self, val)', a_ok, 'swap is called on the same container with the value to store')
        dropped = any(U.callee_name(t2) == 'drop' and ('call', bb) in b.origins(t2['args'][0]) for _, t2 in b.calls()) or \
            any(t2['place']['local'] == t['dest']['local'] for _, t2 in b.drops(include_cleanup=False))
        col.add('STORE-IS-SWAP', 'store|old value dropped', dropped, 'the value returned by swap is dropped (released), not leaked or kept')
    atomics = [s for s in O.ctx(fx).summ.sites_by_body.get(b.key, ())]
    col.add('STORE-IS-SWAP', 'store|no direct cell access', not atomics, 'store touches the cell only through swap')


def _store_spelled_out(fx, col, b, lc):
    """store shares a private helper with swap (`replace`: exchange + settle the readers) and releases the old value itself: the same
    four steps as swap, in the same order, on the same container, each exactly once."""
    from .ledger import _refcnt
    names = [U.callee_name(t) for _, t in lc]
    sites = [x for x in O.ctx(fx).summ.sites_by_body.get(b.key, ())]
    if sorted(names) not in (['dec', 'into_ptr', 'wait_for_readers'], ['from_ptr', 'into_ptr', 'wait_for_readers']) or len(sites) != 1 \
            or sites[0].cls != 'cell' or sites[0].op != 'swap':
        return False
    by = {U.callee_name(t): (bb, t) for bb, t in lc}
    sw = sites[0]
    ip, wr = by['into_ptr'], by['wait_for_readers']
    rel = by.get('dec') or by.get('from_ptr')
    col.ok('STORE-IS-SWAP', 'store|only swap', 'store spells the steps of swap out (into_ptr, the exchange, wait_for_readers, release of the old value)')
    a_ok = b.origins(ip[1]['args'][0]) == {('arg', 2)} and ('call', ip[0]) in b.origins(sw.arg(1)) and sw.root == ('arg', 1)
    col.add('STORE-IS-SWAP', 'store|swap(self, val)', a_ok, 'the value to store is converted and exchanged into the container\'s own cell', sw.loc)
    order = b.dominates(ip[0], sw.bb) and b.dominates(sw.bb, wr[0]) and b.dominates(wr[0], rel[0]) and b.postdominates(rel[0], sw.bb)
    same = ('call', sw.bb) in b.origins(wr[1]['args'][1] if len(wr[1]['args']) > 2 else wr[1]['args'][0]) and ('call', sw.bb) in b.origins(rel[1]['args'][0])
    dropped = order and same
    if dropped and U.callee_name(rel[1]) == 'from_ptr':
        dropped = any(U.callee_name(t2) == 'drop' and ('call', rel[0]) in b.origins(t2['args'][0]) for _, t2 in b.calls()) or \
            any(t2['place']['local'] == rel[1]['dest']['local'] for _, t2 in b.drops(include_cleanup=False))
    col.add('STORE-IS-SWAP', 'store|old value dropped', dropped,
            'the pointer the exchange returned is settled (wait_for_readers) and then released exactly once, on every path')
    col.ok('STORE-IS-SWAP', 'store|no direct cell access', 'the one exchange above')
    return True


def rule_cas_shape(fx, col):
    cx = O.ctx(fx)
    b = _body(fx, '<strategy::hybrid::HybridStrategy as strategy::sealed::CaS>::compare_and_swap')
    if not col.anchor('CAS-SHAPE', 'Hybrid compare_and_swap', b is not None):
        return
    fn = 'Hybrid compare_and_swap'
    cas = [s for s in cx.summ.sites_by_body.get(b.key, ()) if s.cls == 'cell' and s.op.startswith('compare_exchange')]
    loops = b.loops()
    if not col.anchor('CAS-SHAPE', fn + '|one exchange', len(cas) == 1 and len(loops) <= 1, '%d exchanges, %d loops' % (len(cas), len(loops))):
        return
    c = cas[0]
    if loops and c.bb in loops[0][1]:
        h, blocks, tails = loops[0]
    else:
        h, blocks, tails = 0, set(x for x in range(b.n) if not b.is_cleanup(x)), []
        col.add('CAS-SHAPE', fn + '|strong exchange when not retried', c.op == 'compare_exchange',
                'without a retry loop the exchange must be the strong compare_exchange (the weak form may fail spuriously)', c.loc)
    loads = [(bb, t) for bb, t in b.calls(include_cleanup=False) if U.callee_name(t) == 'load' and (t['callee'].get('trait') or '').startswith(SEALED)]
    in_loop = [(bb, t) for bb, t in loads if bb in blocks and b.dominates(bb, c.bb)]
    col.add('CAS-SHAPE', fn + '|fresh load per attempt', len(in_loop) == 1,
            'the stored value is loaded before each exchange attempt (%d load(s) in the function, %d dominating the exchange inside its retry scope)' % (len(loads), len(in_loop)))
    if not in_loop:
        return
    lbb, lt = in_loop[0]
    stor_ok = b.origins(lt['args'][1]) == {('arg', 2)} and b.origins(c.arg(0)) == {('arg', 2)}
    col.add('CAS-SHAPE', fn + '|same cell', stor_ok, 'load and exchange address the `storage` parameter')
    # the verdict: compare as_ptr(loaded) with current.as_raw()
    verdict = None
    for bb in sorted(blocks):
        t = b.term(bb)
        if t['k'] != 'switch':
            continue
        d = U.def_rvalue(b, t['discr'])
        if d and d[0] == 'rv' and d[3]['k'] == 'binop' and d[3]['op'] in ('Eq', 'Ne'):
            lo = b.origins(d[3]['l'], through_calls=lambda tt: [0] if U.callee_name(tt) in ('as_ptr', 'as_raw', 'deref', 'borrow') else None)
            ro = b.origins(d[3]['r'], through_calls=lambda tt: [0] if U.callee_name(tt) in ('as_ptr', 'as_raw', 'deref', 'borrow') else None)
            pair = (('call', lbb) in lo and ('arg', 3) in ro) or (('call', lbb) in ro and ('arg', 3) in lo)
            if pair:
                verdict = (bb, d[3]['op'])
    col.add('CAS-SHAPE', fn + '|verdict by pointer identity', verdict is not None and b.dominates(verdict[0], c.bb),
            'as_ptr(loaded) is compared with current.as_raw() in every iteration, before the exchange')
    # expected = current.as_raw(), new = as_ptr(&new)
    thr = lambda tt: [0] if U.callee_name(tt) in ('as_ptr', 'as_raw', 'deref', 'borrow') else None
    exp_ok = b.origins(c.arg(1), through_calls=thr) == {('arg', 3)}
    new_ok = b.origins(c.arg(2), through_calls=thr) == {('arg', 4)}
    col.add('CAS-SHAPE', fn + '|expects current, installs new', exp_ok and new_ok,
            'compare_exchange(expected derives from `current`: %s, new derives from `new`: %s)' % (exp_ok, new_ok), c.loc)
    # every returned protection is the one the verdict was taken on
    rets = []
    for bb in range(b.n):
        if b.is_cleanup(bb):
            continue
        for i, st in enumerate(b.stmts(bb)):
            if st['k'] == 'assign' and st['dest']['local'] == 0 and not st['dest']['proj']:
                rets.append((bb, i, st['rv']))
        t = b.term(bb)
        if t['k'] == 'call' and t['dest']['local'] == 0 and not t['dest']['proj']:
            rets.append((bb, None, {'k': 'call', 'term': t}))
    good = bool(rets)
    why = []
    for (bb, i, rv) in rets:
        if rv['k'] == 'use':
            src = b.origins(rv['op'])
            if src == {('call', lbb)} and verdict and b.dominates(verdict[0], bb):
                continue
            good = False
            why.append('value returned at %s does not come from the load the verdict was based on' % b.loc(bb, i))
        else:
            good = False
            why.append('value returned at %s is produced by %s, not by the compared load' % (b.loc(bb), 'a second load' if rv['k'] == 'call' else rv['k']))
    col.add('CAS-SHAPE', fn + '|returns the compared value', good, '; '.join(why) or '%d return(s), each hands back the protection whose pointer decided the verdict' % len(rets))
    # success: into_ptr(new), then release of the duplicate after wait_for_readers (PAY-BEFORE-RELEASE)
    # the local handle is given up (mem::forget(new); BYPASS judges the spelling) exactly on the success outcome
    ip = [(bb, t) for bb, t in b.calls(include_cleanup=False) if ((t['callee'].get('trait') or '').endswith('ref_cnt::RefCnt') and U.callee_name(t) == 'into_ptr')
          or (U.callee_name(t) == 'forget' and t['callee'].get('path', '').endswith('mem::forget'))]
    ok = len(ip) == 1 and _on_cas_success(b, c, ip[0][0]) and b.origins(ip[0][1]['args'][0]) == {('arg', 4)}
    col.add('CAS-SHAPE', fn + '|new forgotten only on success', ok, '`new` is forgotten exactly on the success outcome (on failure it is dropped by Rust)')
    # `current` stays alive until the verdict is final
    early = []
    for bb, t in b.drops(include_cleanup=False):
        if t['place']['local'] == 3 and not t['place']['proj']:
            if b.dominates(bb, c.bb) or (tails and bb in blocks):
                early.append(b.loc(bb))
    for bb, t in b.calls(include_cleanup=False):
        if U.callee_name(t) == 'drop' and t['args'] and t['args'][0]['k'] == 'move' and t['args'][0]['place']['local'] == 3:
            if b.dominates(bb, c.bb) or (tails and bb in blocks):
                early.append(b.loc(bb))
    moved = []
    for bb in range(b.n):
        if b.dominates(bb, c.bb) and bb != c.bb and not b.is_cleanup(bb):
            for i, st in enumerate(b.stmts(bb)):
                if st['k'] == 'assign' and st['rv']['k'] == 'use' and st['rv']['op']['k'] == 'move' and st['rv']['op']['place']['local'] == 3:
                    moved.append(b.loc(bb, i))
    col.add('CAS-SHAPE', fn + '|current alive across the loop', not early and not moved,
            '`current` dropped/moved before or inside the loop at %s (a by-value guard is what keeps the expected pointer from being recycled)' % (early + moved) if (early or moved) else '`current` is held until the function returns')


def rule_asraw_siblings(fx, col):
    impls = [b for b in fx.lib.bodies if (b.j.get('impl_trait') or '').endswith('as_raw::AsRaw') and b.name == 'as_raw']
    col.floor('ASRAW-SIBLINGS', 'AsRaw impls', len(impls), 5)
    for b in impls:
        calls = [(bb, t) for bb, t in b.calls(include_cleanup=False)]
        st = b.j.get('impl_self_ty', '')
        lib_or_user = [t for _, t in calls if U.callee_name(t) not in ('deref', 'borrow')]
        if st.startswith('*'):
            # identity: no call at all, or only address-preserving pointer casts of `self` (`self.cast_mut()`)
            CASTS = ('cast_mut', 'cast_const', 'cast')
            ok = all(U.callee_name(t) in CASTS and 'ptr::' in t['callee'].get('path', '') and
                     b.origins(t['args'][0], through_calls=lambda tt: [0] if U.callee_name(tt) in CASTS else None) == {('arg', 1)} for _, t in calls)
            why = 'raw pointer: identity (no call, or pointer casts of self only)'
        elif 'ptr::NonNull<' in st or 'ptr::non_null::NonNull<' in st:
            # the pointer itself, like *mut T: the only call is NonNull::as_ptr on self
            ok = len(calls) == 1 and U.callee_name(calls[0][1]) == 'as_ptr' and 'NonNull' in calls[0][1]['callee'].get('path', '') and \
                b.origins(calls[0][1]['args'][0], through_calls=_deref_through) == {('arg', 1)}
            why = 'non-null raw pointer: identity (NonNull::as_ptr(self))'
        else:
            ok = len(lib_or_user) == 1 and U.callee_name(lib_or_user[0]) == 'as_ptr' and (lib_or_user[0]['callee'].get('trait') or '').endswith('ref_cnt::RefCnt')
            if ok:
                src = b.origins(lib_or_user[0]['args'][0], through_calls=_deref_through)
                ok = src == {('arg', 1)}
            why = 'T::as_ptr(<deref of self>) — the same function compare_and_swap applies to the loaded value'
        col.add('ASRAW-SIBLINGS', '%s|shape' % b.fname, ok, why + ' (calls: %s)' % [U.callee_name(t) for _, t in calls])


def rule_rcu_shape(fx, col):
    b = _body(fx, 'arc_swap::ArcSwapAny::rcu')
    if not col.anchor('RCU-SHAPE', 'ArcSwapAny::rcu', b is not None):
        return
    loops = b.loops()
    if not col.anchor('RCU-SHAPE', 'rcu|loop', len(loops) == 1):
        return
    h, blocks, tails = loops[0]
    calls = {U.callee_name(t): (bb, t) for bb, t in b.calls(include_cleanup=False)}
    fcall = [(bb, t) for bb, t in b.calls(include_cleanup=False) if t['callee'].get('self_is_param') and U.callee_name(t) in ('call_mut', 'call', 'call_once')]
    cas = [(bb, t) for bb, t in b.calls(include_cleanup=False) if U.callee_name(t) == 'compare_and_swap']
    if not col.anchor('RCU-SHAPE', 'rcu|f and compare_and_swap', len(fcall) == 1 and len(cas) == 1):
        return
    fbb, ft = fcall[0]
    cbb, ct = cas[0]
    col.add('RCU-SHAPE', 'rcu|both in the loop', fbb in blocks and cbb in blocks and b.dominates(fbb, cbb), 'f is applied and the exchange attempted once per iteration')
    # f's argument and the `current` of the exchange are the same guard
    fsrc = b.origins(ft['args'][1], through_calls=_deref_through)
    csrc = b.origins(ct['args'][1], through_calls=_deref_through)
    col.add('RCU-SHAPE', 'rcu|f sees the value the exchange expects', fsrc == csrc and bool(fsrc), 'f(&cur) and compare_and_swap(&*cur, ..) use the same guard (%s)' % sorted(fsrc))
    # f's result flows only into Into::into -> new
    into_t = lambda tt: [0] if U.callee_name(tt) == 'into' else None
    nsrc = b.origins(ct['args'][2], through_calls=into_t)
    col.add('RCU-SHAPE', 'rcu|new is f\'s result', nsrc == {('call', fbb)}, 'the value installed is f(&cur).into()')
    fres = ft['dest']['local']
    other = []
    for bb in range(b.n):
        if b.is_cleanup(bb):
            continue
        t = b.term(bb)
        if t['k'] == 'call' and bb != fbb and fres in set(U.term_locals_used(t)) and U.callee_name(t) != 'into':
            other.append(b.loc(bb))
    writes = [U.callee_name(t) for _, t in _lib_calls(fx, b) if U.callee_name(t) in ('store', 'swap')]
    col.add('RCU-SHAPE', 'rcu|discarded attempts never become visible', not other and not writes,
            'f\'s result reaches nothing but the `new` argument of the exchange; no store/swap in rcu (%s %s)' % (other, writes))
    # success decided by ptr_eq(cur, prev); returns into_inner(prev); retries with cur = prev
    pe = [(bb, t) for bb, t in b.calls(include_cleanup=False) if U.callee_name(t) == 'ptr_eq']
    ok = len(pe) == 1
    if ok:
        a = b.origins(pe[0][1]['args'][0], through_calls=_deref_through)
        c2 = b.origins(pe[0][1]['args'][1], through_calls=_deref_through)
        ok = (a == fsrc and c2 == {('call', cbb)}) or (c2 == fsrc and a == {('call', cbb)})
    col.add('RCU-SHAPE', 'rcu|success = returned value is the expected one', ok, 'swapped = ptr_eq(&*cur, &*prev)')
    ii = [(bb, t) for bb, t in b.calls(include_cleanup=False) if U.callee_name(t) == 'into_inner' and (t['dest']['local'] == 0 or b.origins(0) == {('call', bb)})]
    ok = len(ii) == 1 and b.origins(ii[0][1]['args'][0]) == {('call', cbb)}
    col.add('RCU-SHAPE', 'rcu|returns the replaced value', ok, 'the result is Guard::into_inner(prev), prev being what compare_and_swap returned')
    # cur := prev on retry: the guard handed to f can be the value the previous exchange returned
    re_ok = ('call', cbb) in fsrc
    col.add('RCU-SHAPE', 'rcu|retries with the fresh value', re_ok, 'on interference cur is replaced by the value just returned (the guard f sees derives from %s)' % sorted(fsrc))
    cls, why = P.classify_back_edge(O.ctx(fx), b, tails[0], h)
    col.add('RCU-SHAPE', 'rcu|retry only on interference', cls == 'L-INTERFERENCE', '%s: %s' % (cls, why))


def rule_wrapper_pure(fx, col):
    """The public operations are pass-throughs: `load` and `compare_and_swap` hand the cell to the strategy exactly once on
    every path and return what it returned; the existing public operations touch the cell directly only where the table says
    (swap's RMW, get_mut in into_inner / Drop). A "cheap check first" in the wrapper takes the verdict from an unprotected
    read and the reply from another one."""
    cx = O.ctx(fx)
    allowed = {'arc_swap::ArcSwapAny::swap': {'swap'}, 'arc_swap::ArcSwapAny::store': {'swap'}, 'arc_swap::ArcSwapAny::into_inner': {'get_mut'}, '<ArcSwapAny as std::ops::Drop>::drop': {'get_mut'}}
    OPS = ('load', 'load_full', 'store', 'swap', 'compare_and_swap', 'rcu', 'into_inner', 'drop')
    n = 0
    for b in fx.lib.bodies:
        if b.j.get('impl_self_adt') != 'arc_swap::ArcSwapAny' or b.name not in OPS:
            continue  # a new, additional method is not an existing operation: nothing is claimed about it here
        for s_ in cx.summ.sites_by_body.get(b.key, ()):
            if s_.cls == 'cell':
                n += 1
                col.add('WRAPPER-PURE', '%s|cell.%s' % (b.fname, s_.op), s_.op in allowed.get(b.fname, ()),
                        'direct access to the cell from the strategy-agnostic layer (allowed: swap in swap / store, get_mut in into_inner / Drop)', s_.loc)
    col.floor('WRAPPER-PURE', 'direct cell accesses in ArcSwapAny', n, 3)
    for fname, callee in (('arc_swap::ArcSwapAny::load', 'load'), ('arc_swap::ArcSwapAny::compare_and_swap', 'compare_and_swap')):
        b = _body(fx, fname)
        if not col.anchor('WRAPPER-PURE', fname, b is not None):
            continue
        sc = [(bb, t) for bb, t in b.calls(include_cleanup=False) if U.callee_name(t) == callee and (t['callee'].get('trait') or '').startswith(SEALED)]
        rets = [x for x in range(b.n) if b.term(x)['k'] == 'return']
        ok = len(sc) == 1 and b.postdominates(sc[0][0], 0) and all(b.dominates(sc[0][0], r) for r in rets)
        col.add('WRAPPER-PURE', '%s|one strategy call on every path' % fname, ok, '%d call(s) of the strategy\'s %s; it is on every path to return' % (len(sc), callee))
        if ok:
            thr = lambda t: [0] if U.callee_name(t) in ('from_inner',) else None
            src = b.origins(0, fields=True, through_calls=thr) if 'fields' in b.origins.__code__.co_varnames else b.origins(0)
            col.add('WRAPPER-PURE', '%s|returns the strategy\'s answer' % fname, ('call', sc[0][0]) in src and not any(o[0] == 'call' and o[1] != sc[0][0] for o in src),
                    'the guard returned wraps the protection produced by that call (sources: %s)' % sorted(src, key=str))
        others = [U.callee_name(t) for bb, t in b.calls(include_cleanup=False) if (bb, t) not in sc and t['callee'].get('krate') == 'arc_swap']
        col.add('WRAPPER-PURE', '%s|nothing else' % fname, not others, 'other calls into the crate: %s' % others)


def rule_write_reply(fx, col):
    """Any body of the crate (also one added later) that WRITES a container (store / swap / compare_and_swap / rcu) and then answers
    with a value it got from a SEPARATE read of the same container (load / load_full / the cache's revalidation) instead of the
    write's own reply: between the two another writer may come in, so the caller is told about a value that was not the one
    replaced (C04: handed back twice / never; C05, C06: false success; C13: `load_full().expect(..)` after a lost exchange)."""
    WR = ('store', 'swap', 'compare_and_swap', 'rcu')
    RD = ('load', 'load_full', 'load_no_revalidate', 'revalidate')
    n = 0
    for b in fx.lib.bodies:
        if b.kind == 'Closure' or '::tests' in b.fname:
            continue
        calls = [(bb, t) for bb, t in b.calls(include_cleanup=False) if t['callee'].get('krate') == 'arc_swap']
        wr = [(bb, t) for bb, t in calls if U.callee_name(t) in WR and not (t['callee'].get('trait') or '').startswith(SEALED)]
        rd = [(bb, t) for bb, t in calls if U.callee_name(t) in RD and not (t['callee'].get('trait') or '').startswith(SEALED)]
        if not wr or not rd:
            continue
        n += 1
        thr = lambda t: [0] if U.callee_name(t) in ('into_inner', 'deref', 'clone', 'expect', 'unwrap', 'unwrap_or_else', 'as_ref', 'borrow', 'replace', 'from', 'into') else None
        src = b.origins(0, through_calls=thr, fields=True) if 'fields' in b.origins.__code__.co_varnames else b.origins(0, through_calls=thr)
        from_read = [bb for bb, t in rd if ('call', bb) in src]
        from_write = [bb for bb, t in wr if ('call', bb) in src]
        # a read that merely precedes the write loop (rcu's own `cur = load()`) is not a reply; a reply is a read AFTER a write
        late = [r for r in from_read if any(b.reach_from(w, unwind=False) & {r} and r != w for w, _ in wr)]
        # the cache case: the value handed back is the cached field refreshed by a revalidation next to a store
        cached_reply = any(U.callee_name(t) == 'revalidate' for _, t in rd) and any(U.callee_name(t) == 'store' for _, t in wr) and b.local_ty(0) not in ('()', 'bool')
        ok = not ((late and not from_write) or (cached_reply and not from_write))
        col.add('WRITE-REPLY', '%s|answers with the write\'s own reply' % b.fname, ok,
                'writes %s, reads %s; value returned derives from reads at %s and from writes at %s' % (sorted({U.callee_name(t) for _, t in wr}), sorted({U.callee_name(t) for _, t in rd}),
                [b.loc(x) for x in from_read], [b.loc(x) for x in from_write]), b.loc(wr[0][0]))
    col.ok('WRITE-REPLY', 'scan', 'bodies that both write and read a container: %d' % n)


def rule_api_agnostic(fx, col):
    lib = fx.lib
    n = 0
    for b in lib.bodies:
        if b.j.get('impl_self_adt') != 'arc_swap::ArcSwapAny' and not b.fname.startswith('arc_swap::Guard'):
            continue
        n += 1
        bad = []
        for bb, t in b.calls():
            p = (t['callee'].get('pretty') or '')
            if re.search(r'strategy::(hybrid|rw_lock|test_strategies)', p) or 'debt::' in p:
                bad.append(p)
        for bb in range(b.n):
            for st in b.stmts(bb):
                if st['k'] == 'assign' and st['rv']['k'] == 'aggregate' and 'strategy::hybrid' in (st['rv'].get('adt') or ''):
                    bad.append(st['rv']['adt'])
        if b.name == 'const_empty':
            col.add('API-AGNOSTIC', '%s|the one strategy-specific constructor' % b.fname, all('HybridStrategy' in x or 'DefaultConfig' in x for x in bad),
                    'const_empty builds the default strategy literally (const fn cannot call Default): %s' % sorted(set(bad)))
        else:
            col.add('API-AGNOSTIC', '%s|strategy-agnostic' % b.fname, not bad, 'mentions of concrete strategies / debt internals: %s' % sorted(set(bad)))
    col.floor('API-AGNOSTIC', 'ArcSwapAny / Guard methods', n, 20)
    # USE_FAST read only as the attempt/fallback selector inside InnerStrategy::load
    users = []
    for b in lib.bodies:
        for bb in range(b.n):
            for st in b.stmts(bb):
                if st['k'] == 'assign':
                    for o in U._operands_of_rv(st['rv']):
                        if o['k'] == 'const' and 'USE_FAST' in (o['c'].get('text') or ''):
                            users.append(b)
            t = b.term(bb)
            if t['k'] == 'switch' and t['discr']['k'] == 'const' and 'USE_FAST' in (t['discr']['c'].get('text') or ''):
                users.append(b)
            if t['k'] == 'call' and any(o['k'] == 'const' and 'USE_FAST' in (o['c'].get('text') or '') for o in t['args']):
                users.append(b)   # handed to a function (`Cfg::USE_FAST.then(..)`)
    # a body that merely returns the constant (a `const fn uses_fast_slots()` getter: no call, no atomic) decides nothing
    getters = [u for u in users if not list(u.calls(include_cleanup=False))]
    users = [u for u in users if u not in getters]
    names = sorted({u.fname for u in users})
    col.add('API-AGNOSTIC', 'Config::USE_FAST|single reader', len(names) == 1 and names[0].startswith('<strategy::hybrid::HybridStrategy as strategy::sealed::InnerStrategy>::load'),
            'USE_FAST is consulted in %s (pure getters: %s)' % (names, sorted({g.fname for g in getters})))
    for u in users[:1]:
        calls = [U.callee_name(t) for _, t in _lib_calls(fx, u)]
        kids = [cb for _, _, cb in U.closures_built(lib, u)]
        inner = [U.callee_name(t) for k in kids for _, t in _lib_calls(fx, k)]
        col.add('API-AGNOSTIC', 'Config::USE_FAST|selects attempt-then-fallback vs fallback', 'attempt' in calls and 'fallback' in inner + calls,
                'the load closure calls %s and its fallback closure %s' % (calls, inner))
    # Protected for T is the identity
    for nm in ('from_inner', 'into_inner'):
        b = _body(fx, '<T as strategy::sealed::Protected>::' + nm)
        if fx.has_feature('internal-test-strategies') and col.anchor('API-AGNOSTIC', 'Protected for T::' + nm, b is not None):
            ok = not list(b.calls(include_cleanup=False))
            col.add('API-AGNOSTIC', 'Protected for T|%s is the identity' % nm, ok, 'no call in the body')


def rule_lock_span(fx, col):
    if not fx.has_feature('internal-test-strategies'):
        return
    cx = O.ctx(fx)
    # load: read lock acquired before the cell is read; guard dropped after the inc
    b = _body(fx, '<std::sync::RwLock as strategy::sealed::InnerStrategy>::load')
    if col.anchor('LOCK-SPAN', 'RwLock load', b is not None):
        rd = [bb for bb, t in b.calls(include_cleanup=False) if U.callee_name(t) == 'read']
        cell = [s for s in cx.summ.sites_by_body.get(b.key, ()) if s.cls == 'cell']
        inc = [bb for bb, t in b.calls(include_cleanup=False) if U.callee_name(t) == 'inc']
        # the guard: whatever the lock result is unwrapped into (expect / unwrap / unwrap_or_else(PoisonError::into_inner) /
        # a match): every local of guard type whose value derives from the read() call
        gls = [l for l in range(len(b.j['locals'])) if 'RwLockReadGuard<' in b.local_ty(l) and 'Result<' not in b.local_ty(l) and 'PoisonError<' not in b.local_ty(l)
               and rd and ('call', rd[0]) in b.origins(l, through_calls=lambda t: [0] if U.callee_name(t) in ('expect', 'unwrap', 'unwrap_or_else', 'into_inner') else None)]
        gl = gls[0] if gls else None
        drops = sorted({x for l in gls for x in b.releases(l)})
        ok = bool(rd) and bool(cell) and bool(inc) and gl is not None and all(b.dominates(rd[0], s.bb) for s in cell) and \
            bool(drops) and all(b.dominates(i, d) for i in inc for d in drops)
        col.add('LOCK-SPAN', 'RwLock load|read lock spans read and inc', ok, 'read() at %s precedes the cell read; the guard is dropped at %s after the inc' % ([b.loc(x) for x in rd], [b.loc(x) for x in drops]))
    b = _body(fx, '<std::sync::RwLock as strategy::sealed::InnerStrategy>::wait_for_readers')
    if col.anchor('LOCK-SPAN', 'RwLock wait_for_readers', b is not None):
        wr = [bb for bb, t in b.calls(include_cleanup=False) if U.callee_name(t) == 'write']
        col.add('LOCK-SPAN', 'RwLock wait_for_readers|takes the write lock', len(wr) == 1, 'write lock acquired (and released): no reader is inside its critical section afterwards')
    b = _body(fx, '<std::sync::RwLock as strategy::sealed::CaS>::compare_and_swap')
    if col.anchor('LOCK-SPAN', 'RwLock compare_and_swap', b is not None):
        wr = [(bb, t) for bb, t in b.calls(include_cleanup=False) if U.callee_name(t) == 'write']
        cell = [s for s in cx.summ.sites_by_body.get(b.key, ()) if s.cls == 'cell']
        ok = len(wr) == 1 and bool(cell)
        if ok:
            # the guard: the result of write() itself or whatever it is unwrapped into (found by type)
            thr_g = lambda t: [0] if U.callee_name(t) in ('expect', 'unwrap', 'unwrap_or_else', 'into_inner') else None
            gls = [l for l in range(len(b.j['locals'])) if 'RwLockWriteGuard<' in b.local_ty(l) and not b.local_ty(l).lstrip().startswith('&')
                   and ('call', wr[0][0]) in b.origins(l, through_calls=thr_g)]
            drops = sorted({x for l in gls for x in b.releases(l)})
            # the count-related steps that must sit under the lock: the inc of the value handed back and the from_ptr of what the
            # exchange found (the rejected `new` is the caller's own value: it may — and should — be destroyed after the unlock)
            xbb = {s_.bb for s_ in cell}
            rel = [bb for bb, t in b.calls(include_cleanup=False) if U.callee_name(t) == 'inc' or
                   (U.callee_name(t) == 'from_ptr' and any(o[0] == 'call' and o[1] in xbb for o in b.origins(t['args'][0], through_calls=lambda tt: [0] if U.callee_name(tt) in ('unwrap_or_else', 'unwrap_or', 'cast', 'cast_const', 'cast_mut') else None)))]
            after = set()
            for d in drops:
                after |= b.reach_from(b.term(d)['target'], unwind=False)
            ok = all(b.dominates(wr[0][0], s.bb) for s in cell) and bool(drops) and not any(x in after for x in rel) and not any(s.bb in after for s in cell)
        col.add('LOCK-SPAN', 'RwLock compare_and_swap|write lock spans the exchange', ok, 'the write guard is taken before the exchange and dropped after the counts are settled')
        # the answer is what the exchange found in the cell, on every path (no shortcut that replies without looking)
        xs = [s_ for s_ in cell if s_.op.startswith('compare_exchange')]
        rets = [x for x in range(b.n) if b.term(x)['k'] == 'return']
        on_all = len(xs) == 1 and all(b.dominates(xs[0].bb, r) for r in rets)
        thr = lambda t: [0] if U.callee_name(t) in ('from_ptr', 'cast', 'cast_const', 'cast_mut', 'unwrap_or_else', 'unwrap_or', 'unwrap', 'expect', 'into_ok_or_err', 'map_or_else') else None
        src = b.origins(0, through_calls=thr)
        from_x = len(xs) == 1 and bool(src) and all(o == ('call', xs[0].bb) for o in src)
        col.add('LOCK-SPAN', 'RwLock compare_and_swap|replies with what the exchange found', on_all and from_x,
                'the exchange is on every path to return: %s; the value returned derives from its result only: %s (sources %s)' % (on_all, from_x, sorted(src, key=str)))


def rule_lock_no_user_code(fx, col):
    """C13 (no operation hangs on its own account) on the lock based reference strategy: nothing the user supplies runs while the
    strategy holds its lock. A pointee destructor run under the write lock (the rejected `new`, a by-value `current`) that
    touches the same container again blocks for ever on a lock its own thread holds — every lost rcu round of such a type."""
    if not fx.has_feature('internal-test-strategies'):
        return
    from . import ledger as L
    bodies = [b for b in fx.lib.bodies if (b.j.get('impl_self_ty') or '').startswith('std::sync::RwLock<')]
    if not col.anchor('LOCK-NO-USER-CODE', 'impls for RwLock<()>', len(bodies) >= 3):
        return
    n = 0
    for b in bodies:
        for abb, t in b.calls(include_cleanup=False):
            if not (U.callee_name(t) in ('read', 'write') and 'sync::' in t['callee'].get('path', '')):
                continue
            n += 1
            thr = lambda tt: [0] if U.callee_name(tt) in ('expect', 'unwrap', 'unwrap_or_else', 'into_inner') else None
            holders = [l for l in range(len(b.j['locals'])) if re.search(r'RwLock(Read|Write)Guard<', b.local_ty(l)) and ('call', abb) in b.origins(l, through_calls=thr)]
            rel = sorted({x for l in holders for x in b.releases(l)})
            # a temporary that is dropped in the same statement (`drop(self.write()..)`) holds nothing across other code
            under = b.reach_from(b.term(abb)['target'], unwind=False, avoid=set(rel)) if b.term(abb).get('target') is not None else set()
            bad = []
            for bb in sorted(under):
                if bb in rel:
                    continue
                tt = b.term(bb)
                if tt['k'] == 'call' and L.user_call_kind(tt):
                    bad.append('%s at %s' % (L.user_call_kind(tt), b.loc(bb)))
                elif tt['k'] == 'call' and U.callee_name(tt) == 'drop' and tt['callee'].get('path', '').endswith('mem::drop'):
                    a = (tt['callee'].get('args') or [''])[0]
                    gens = [g for g in (b.j.get('generics') or []) if not g.startswith("'")]
                    if any(re.search(r'(?<![\w])%s(?![\w])' % re.escape(g), a) for g in gens) and not re.search(r'RwLock(Read|Write)Guard<', a):
                        bad.append('drop of a value of generic type %s at %s' % (a, b.loc(bb)))
                if tt['k'] == 'drop' and tt.get('has_param') and not re.search(r'RwLock(Read|Write)Guard<', tt['ty']):
                    bad.append('drop of %s at %s' % (tt['ty'], b.loc(bb)))
            col.add('LOCK-NO-USER-CODE', '%s|%s() span' % (b.fname, U.callee_name(t)), not bad and bool(rel),
                    'user code under the lock: %s (guard released at %s)' % (bad or 'none', [b.loc(x) for x in rel]), b.loc(abb))
    col.floor('LOCK-NO-USER-CODE', 'lock acquisitions', n, 3)


def rule_lock_poison(fx, col):
    """C18 / C13 on the lock based reference strategy: user code (a pointee destructor, the drop of `current`) runs while
    compare_and_swap holds the write lock, so a panic there poisons the lock. The lock guards no data (`RwLock<()>`); an
    acquisition that *panics* on a poisoned lock (`.expect(..)` / `.unwrap()`) turns one caught panic into a panic of every
    later load / store / drop of that container."""
    if not fx.has_feature('internal-test-strategies'):
        return
    from . import ledger as L
    lib = fx.lib
    bodies = [b for b in lib.bodies if (b.j.get('impl_self_ty') or '').startswith('std::sync::RwLock<')]
    if not col.anchor('LOCK-POISON', 'impls for RwLock<()>', len(bodies) >= 3):
        return
    under_lock = []
    for b in bodies:
        acq = [bb for bb, t in b.calls(include_cleanup=False) if U.callee_name(t) in ('read', 'write') and 'sync::' in t['callee'].get('path', '')]
        if not acq:
            continue
        after = set()
        for a in acq:
            after |= b.reach_from(a, unwind=False)
        for bb in sorted(after):
            t = b.term(bb)
            if t['k'] == 'call' and L.user_call_kind(t):
                under_lock.append('%s: %s at %s' % (b.fname.split('::')[-1], L.user_call_kind(t), b.loc(bb)))
            if t['k'] == 'drop' and t.get('has_param') and not b.is_cleanup(bb):
                under_lock.append('%s: drop of %s at %s' % (b.fname.split('::')[-1], t['ty'], b.loc(bb)))
    n = 0
    for b in bodies:
        for bb, t in b.calls(include_cleanup=False):
            if U.callee_name(t) in ('read', 'write') and 'sync::' in t['callee'].get('path', ''):
                n += 1
                panicking = [x for x, tt in b.calls(include_cleanup=False) if U.callee_name(tt) in ('expect', 'unwrap') and ('call', bb) in b.origins(tt['args'][0])]
                col.add('LOCK-POISON', '%s|%s() tolerates a poisoned lock' % (b.fname, U.callee_name(t)), not (panicking and under_lock),
                        'the result of %s() is %s; user code that can panic under the lock: %s' % (U.callee_name(t), 'unwrapped with a panicking method at %s' % [b.loc(x) for x in panicking] if panicking else 'not unwrapped with a panicking method', under_lock[:3]), b.loc(bb))
    col.floor('LOCK-POISON', 'lock acquisitions', n, 3)


# --------------------------------------------------------------------------------------------
# CACHE-SHAPE

def rule_cache_shape(fx, col):
    lib = fx.lib
    cx = O.ctx(fx)
    a = lib.adts.get('arc_swap::cache::Cache')
    if col.anchor('CACHE-SHAPE', 'struct Cache', a is not None):
        f = a['variants'][0]['fields']
        tfields = [x for x in f if x['ty'] == 'T']
        cells = [x for x in f if 'Cell' in x['ty'] or 'atomic' in x['ty'] or 'Mutex' in x['ty']]
        col.add('CACHE-SHAPE', 'Cache|one cached value', len(tfields) == 1 and not cells and len(f) == 2, 'fields: %s' % [(x['name'], x['ty']) for x in f])
    ub = [u for u in lib.unsafe_blocks if u['file'].endswith('src/cache.rs')]
    col.add('CACHE-SHAPE', 'cache.rs|no unsafe', not ub, '%d unsafe block(s) in src/cache.rs' % len(ub))
    rv = _body(fx, 'arc_swap::cache::Cache::revalidate')
    ld = _body(fx, 'arc_swap::cache::Cache::load')
    if not col.anchor('CACHE-SHAPE', 'Cache::revalidate / Cache::load', rv is not None and ld is not None):
        return
    # load: revalidate on every path, then a reference to self.cached
    calls = [(bb, t) for bb, t in _lib_calls(fx, ld)]
    rvc = [bb for bb, t in calls if U.callee_name(t) == 'revalidate']
    ok = len(rvc) == 1 and all(ld.postdominates(rvc[0], 0) for _ in [0]) and ld.dominates(rvc[0], [x for x in range(ld.n) if ld.term(x)['k'] == 'return'][0])
    col.add('CACHE-SHAPE', 'Cache::load|must revalidate', ok, 'every path through Cache::load passes revalidate() before the reference is produced')
    # revalidate: reload iff cached pointer != current pointer of the same container
    cell = [s for s in cx.summ.sites_by_body.get(rv.key, ()) if s.cls == 'cell' and s.op == 'load']
    asp = [(bb, t) for bb, t in rv.calls(include_cleanup=False) if U.callee_name(t) == 'as_ptr']
    lf = [(bb, t) for bb, t in rv.calls(include_cleanup=False) if U.callee_name(t) in ('load_full', 'load') and t['callee'].get('krate') == 'arc_swap']
    if not col.anchor('CACHE-SHAPE', 'revalidate|anchors', len(cell) == 1 and len(asp) == 1 and len(lf) == 1, 'cell loads %d, as_ptr %d, reloads %d' % (len(cell), len(asp), len(lf))):
        return
    col.add('CACHE-SHAPE', 'revalidate|looks at the container on every path', rv.postdominates(cell[0].bb, 0),
            'no early return before the peek at the shared pointer (e.g. "a zero-sized pointee has only one value": the identity of the Arc still changes)', cell[0].loc)
    r, f = rv.ref_path(asp[0][1]['args'][0])
    col.add('CACHE-SHAPE', 'revalidate|compares the cached value', [x['name'] for x in f if x['k'] == 'field'][-1:] == ['cached'], 'as_ptr(&self.cached)')
    guard = None
    for (sbb, succ, val) in U.dominating_branches(rv, lf[0][0], unwind=False):
        r2 = U.bool_outcome(rv, sbb, val)
        if r2 and r2[0] and r2[0][0] == 'rv' and r2[0][3]['k'] == 'binop' and r2[0][3]['op'] in ('Eq', 'Ne'):
            d, truth = r2[0][3], r2[1]
            ls, rs = _call_bbs(rv, d['l']), _call_bbs(rv, d['r'])
            if {asp[0][0], cell[0].bb} == ls | rs:
                guard = ((d['op'] == 'Ne') == truth)
        elif r2 and r2[0] and r2[0][0] == 'call' and U.callee_name(r2[0][2]) in ('eq', 'ne') and len(r2[0][2]['args']) == 2 \
                and ((r2[0][2]['callee'].get('trait_pretty') or r2[0][2]['callee'].get('trait') or '').endswith('cmp::PartialEq')
                     or r2[0][2]['callee'].get('path', '').endswith('ptr::eq')):
            # the two pointers compared as `Option<NonNull<_>>` (or another wrapper that compares by address): `a == b` is a call of eq
            thr_w = lambda t: [0] if U.callee_name(t) in ('new', 'new_unchecked', 'cast', 'cast_mut', 'cast_const', 'as_ptr', 'from') and \
                ('ptr::' in t['callee'].get('path', '') or 'NonNull' in t['callee'].get('path', '')) else None
            srcs = set()
            for a_ in r2[0][2]['args']:
                srcs |= {o[1] for o in rv.origins(a_, through_calls=thr_w) if o[0] == 'call'}
            if {asp[0][0], cell[0].bb} == srcs:
                guard = ((U.callee_name(r2[0][2]) == 'ne') == r2[1])
    # ... and on nothing else: once the pointers differ the reload happens, whatever else is true of the thread (unwinding, its
    # thread-local storage gone, ..): any further condition is a state in which the cache keeps answering with a value that a
    # completed store has replaced
    extra = []
    for (sbb, succ, val) in U.dominating_branches(rv, lf[0][0], unwind=False):
        r2 = U.bool_outcome(rv, sbb, val)
        is_ptr_cmp = False
        if r2 and r2[0]:
            d_ = r2[0]
            ops_ = []
            if d_[0] == 'rv' and d_[3]['k'] == 'binop' and d_[3]['op'] in ('Eq', 'Ne'):
                ops_ = [d_[3]['l'], d_[3]['r']]
            elif d_[0] == 'call' and U.callee_name(d_[2]) in ('eq', 'ne') and len(d_[2]['args']) == 2:
                ops_ = list(d_[2]['args'])
            if ops_:
                thr_w2 = lambda t: [0] if U.callee_name(t) in ('new', 'new_unchecked', 'cast', 'cast_mut', 'cast_const', 'as_ptr', 'from') and \
                    ('ptr::' in t['callee'].get('path', '') or 'NonNull' in t['callee'].get('path', '')) else None
                srcs = set()
                for a_ in ops_:
                    srcs |= {o[1] for o in rv.origins(a_, through_calls=thr_w2) if o[0] == 'call'}
                is_ptr_cmp = srcs == {asp[0][0], cell[0].bb}
        if not is_ptr_cmp:
            facts_ = U.edge_facts(rv, sbb, succ)
            if any(f[0] == 'variant' for f in facts_) and not r2:
                # a match on the comparison result carried in an Option / bool wrapper is still the comparison: look at what it tests
                if all(({o[1] for o in rv.origins(f[1]) if o[0] == 'call'} <= {asp[0][0], cell[0].bb, lf[0][0]}) for f in facts_ if f[0] == 'variant'):
                    continue
            extra.append(rv.loc(sbb))
    col.add('CACHE-SHAPE', 'revalidate|reload is unconditional once the pointers differ', not extra,
            'conditions on the way to the reload other than the pointer comparison: %s' % (extra or 'none'))
    col.add('CACHE-SHAPE', 'revalidate|reload iff changed', guard is True,
            'the reload is control dependent on the UNEQUAL outcome of cached pointer vs current pointer' if guard else 'reload guarded by: %s' % guard, rv.loc(lf[0][0]))
    # same container on both sides
    thr = lambda t: [0] if U.callee_name(t) in ('deref',) else None
    c_src = rv.ref_path(cell[0].arg(0))
    c_root = rv.origins(cell[0].arg(0), through_calls=thr)
    l_root = rv.origins(lf[0][1]['args'][0], through_calls=thr)
    col.add('CACHE-SHAPE', 'revalidate|same container', c_root == l_root == {('arg', 1)}, 'the pointer compared and the value reloaded come from self.arc_swap')
    # the reloaded value is assigned to self.cached; nothing else writes it
    writes = []
    for b in lib.bodies:
        for bb in range(b.n):
            for i, st in enumerate(b.stmts(bb)):
                if st['k'] == 'assign' and any(e['k'] == 'field' and e.get('adt') == 'arc_swap::cache::Cache' and e.get('name') == 'cached' for e in st['dest']['proj']):
                    writes.append((b, bb, i, st))
    normal = [(b, bb, i, st) for (b, bb, i, st) in writes if not b.is_cleanup(bb)]
    in_rv = [w for w in normal if w[0] is rv]
    ok = len(in_rv) == 1 and rv.origins(in_rv[0][3]['rv'].get('op')) == {('call', lf[0][0])}
    # a write-through operation added later (Cache::swap / store / compare_and_swap) may refresh the cached value too, as long as
    # it talks to the container in the same body (what it caches is what it wrote or what the container answered)
    others = [w for w in normal if w[0] is not rv]
    for (ob, obb, oi, ost) in others:
        talks = any(U.callee_name(t) in ('swap', 'store', 'compare_and_swap', 'rcu', 'load', 'load_full') and t['callee'].get('krate') == 'arc_swap' for _, t in ob.calls(include_cleanup=False))
        ok = ok and talks
    col.add('CACHE-SHAPE', 'revalidate|only writer of the cached value', ok, 'self.cached is assigned once in revalidate, from the reload; %d other write(s), each next to an operation on the container' % len(others))
    dr = [bb for bb, t in rv.drops(include_cleanup=False) if any(e.get('name') == 'cached' for e in t['place']['proj'])]
    col.add('CACHE-SHAPE', 'revalidate|old value released', len(dr) == 1 and rv.dominates(lf[0][0], dr[0]), 'the previously cached value is dropped by the assignment on the load that observes the change')
    # MapCache::load: projection applied to the reference returned by inner.load()
    mc = _body(fx, '<cache::MapCache as cache::Access>::load')
    if col.anchor('CACHE-SHAPE', 'MapCache::load', mc is not None):
        il = [(bb, t) for bb, t in mc.calls(include_cleanup=False) if U.callee_name(t) == 'load']
        pc = [(bb, t) for bb, t in mc.calls(include_cleanup=False) if t['callee'].get('self_is_param') and U.callee_name(t) in ('call_mut', 'call', 'call_once')]
        ok = len(il) == 1 and len(pc) == 1 and ('call', il[0][0]) in mc.origins(pc[0][1]['args'][1]) and pc[0][1]['dest']['local'] == 0 or \
            (len(il) == 1 and len(pc) == 1 and ('call', il[0][0]) in mc.origins(pc[0][1]['args'][1]) and ('call', pc[0][0]) in mc.origins(0))
        col.add('CACHE-SHAPE', 'MapCache::load|projection of this load', ok, 'the projection is applied to the reference returned by this very inner.load() and its result is returned (no memoised projection)')
    # a copy of a cache follows the same container with the same value: Clone is derived, or a hand-written impl carries every
    # field over (an "optimised" clone_from that takes only the value leaves the copy on its old container)
    for adt_key in ('arc_swap::cache::Cache', 'arc_swap::cache::MapCache'):
        adt = lib.adts.get(adt_key)
        imps = [i for i in lib.impls if i.get('self_adt') == adt_key and i.get('trait') == 'core::clone::Clone']
        if not col.anchor('CACHE-SHAPE', 'Clone for %s' % U.short(adt_key), len(imps) == 1 and adt is not None):
            continue
        imp = imps[0]
        derived = 'Clone' in (imp.get('span') or {}).get('macros', [])
        allf = {x['name'] for x in adt['variants'][0]['fields']}
        why = 'derived'
        ok = derived
        if not derived:
            ok = True
            why = []
            for it in imp.get('items', []):
                cb = lib.by_key.get(it['key'])
                if cb is None:
                    continue
                touched = set()
                for bb in range(cb.n):
                    for st in cb.stmts(bb):
                        if st['k'] == 'assign':
                            for pl in O._places_of_rv(st['rv']):
                                if pl['local'] in (1, 2) or True:
                                    for e in pl['proj']:
                                        if e['k'] == 'field' and e.get('adt') == adt_key:
                                            touched.add(e['name'])
                            if st['rv']['k'] == 'aggregate' and st['rv'].get('adt') == adt_key:
                                touched |= set(st['rv'].get('field_names', []))
                ok = ok and touched >= allf
                why.append('%s touches %s of %s' % (it['name'], sorted(touched), sorted(allf)))
        col.add('CACHE-SHAPE', 'Clone for %s|whole copy' % U.short(adt_key), ok, 'Clone is %s' % why)
    ca = _body(fx, '<cache::Cache as cache::Access>::load')
    if col.anchor('CACHE-SHAPE', 'Access for Cache::load', ca is not None):
        # either through Cache::load, or revalidate() spelled out on every path before the reference is produced
        il = [bb for bb, t in ca.calls(include_cleanup=False) if U.callee_name(t) in ('load', 'revalidate') and t['callee'].get('krate') == 'arc_swap']
        rets = [x for x in range(ca.n) if ca.term(x)['k'] == 'return']
        ok = len(il) == 1 and ca.postdominates(il[0], 0) and all(ca.dominates(il[0], r) for r in rets)
        col.add('CACHE-SHAPE', 'Access for Cache::load|delegates', ok, 'goes through Cache::load / revalidate() on every path')


# --------------------------------------------------------------------------------------------
# DEREF-PURE / GUARD-OWNED / MUST-LOAD

def rule_access_shape(fx, col):
    lib = fx.lib
    ub = [u for u in lib.unsafe_blocks if u['file'].endswith('src/access.rs')]
    col.add('DEREF-PURE', 'access.rs|no unsafe', not ub, '%d unsafe block(s) in src/access.rs (the 1.1.0 dangling-projection bug class needs unsafe)' % len(ub))
    # deref of every guard type: no atomic, no load reachable (mono graph)
    g = P.graph(fx)
    roots = {p: i for p, i in fx.mono.roots.items() if re.search(r'root_[ag]_\w*deref$', p)}
    col.floor('DEREF-PURE', 'deref roots', len(roots), 5)
    for p, i in sorted(roots.items()):
        seen, parent, _ = g.reach([i])
        bad = []
        for x in seen:
            inst = g.inst[x]
            if not inst.get('walked') and P.leaf_class(inst) == 'atomic':
                bad.append(inst['path'])
            if inst.get('walked') and g.fname(x) in ('arc_swap::ArcSwapAny::load', 'arc_swap::ArcSwapAny::load_full'):
                bad.append(g.fname(x))
        col.add('DEREF-PURE', '%s|snapshot' % p.split('roots::')[-1], not bad, 'dereferencing the guard performs no atomic operation and no load (%d instances): %s' % (len(seen), sorted(set(bad))))
    # MapGuard holds its inner guard by value
    a = lib.adts.get('arc_swap::access::MapGuard')
    if col.anchor('GUARD-OWNED', 'struct MapGuard', a is not None):
        f = {x['name']: x['ty'] for x in a['variants'][0]['fields']}
        col.add('GUARD-OWNED', 'MapGuard|guard by value', f.get('guard') == 'G', 'MapGuard.guard: %s' % f.get('guard'))
    for k in ('arc_swap::access::Map', 'arc_swap::access::AccessConvert', 'arc_swap::access::Constant', 'arc_swap::access::MapGuard', 'arc_swap::access::DirectDeref', 'arc_swap::access::DynGuard'):
        a = lib.adts.get(k)
        if col.anchor('GUARD-OWNED', 'struct ' + k, a is not None):
            bad = [x['name'] for x in a['variants'][0]['fields'] if re.search(r'Cell|atomic|Mutex|RwLock|Cache<', x['ty'])]
            col.add('GUARD-OWNED', '%s|no hidden cache' % k.split('::')[-1], not bad, 'fields with interior mutability / caches: %s' % bad)
    # Map::load: exactly one inner load moved into MapGuard.guard
    b = _body(fx, '<access::Map as access::Access>::load')
    if col.anchor('MUST-LOAD', 'Map::load', b is not None):
        il = [(bb, t) for bb, t in b.calls(include_cleanup=False) if U.callee_name(t) == 'load']
        agg = None
        for bb in range(b.n):
            for st in b.stmts(bb):
                if st['k'] == 'assign' and st['rv']['k'] == 'aggregate' and st['rv'].get('adt') == 'arc_swap::access::MapGuard':
                    agg = st['rv']
        fld = lambda name: agg['fields'][agg['field_names'].index(name)] if agg is not None and name in agg.get('field_names', []) else None
        ok = len(il) == 1 and fld('guard') is not None and b.origins(fld('guard')) == {('call', il[0][0])} and \
            all(b.postdominates(il[0][0], 0) for _ in [0])
        col.add('MUST-LOAD', 'Map::load|fresh inner load into the guard', ok, 'one self.access.load() per call, moved into MapGuard.guard')
        if agg is not None:
            pj = b.origins(fld('projection')) if fld('projection') is not None else set()
            okp = all(o[0] == 'call' and U.callee_name(b.term(o[1])) == 'clone' for o in pj) and bool(pj)
            col.add('MUST-LOAD', 'Map::load|projection cloned from self', okp, 'MapGuard.projection is a clone of self.projection')
    b = _body(fx, '<access::MapGuard as std::ops::Deref>::deref')
    if col.anchor('MUST-LOAD', 'MapGuard::deref', b is not None):
        pc = [(bb, t) for bb, t in b.calls(include_cleanup=False) if t['callee'].get('self_is_param') and U.callee_name(t) in ('call', 'call_mut', 'call_once')]
        ok = len(pc) == 1
        if ok:
            r, f = b.ref_path(pc[0][1]['args'][1]) if False else (None, [])
            src = b.origins(pc[0][1]['args'][1], through_calls=_deref_through)
            ok = src == {('arg', 1)}
        col.add('MUST-LOAD', 'MapGuard::deref|projects its own guard', ok, 'deref applies the projection to &self.guard (the snapshot held by value)')
    # every Access::load / DynAccess::load impl reaches its inner load on every path
    n = 0
    for b in lib.bodies:
        tr = b.j.get('impl_trait') or ''
        if b.name != 'load' or not (tr.endswith('access::Access') or tr.endswith('access::DynAccess')):
            continue
        n += 1
        st = b.j.get('impl_self_ty', '')
        loads = [(bb, t) for bb, t in b.calls(include_cleanup=False) if U.callee_name(t) == 'load']
        if 'Constant' in st:
            cl = [(bb, t) for bb, t in b.calls(include_cleanup=False) if U.callee_name(t) == 'clone']
            ok = len(cl) == 1 and not loads
            r, f = b.ref_path(cl[0][1]['args'][0]) if ok else (None, [])
            ok = ok and r == ('arg', 1)
            col.add('MUST-LOAD', '%s|own value' % b.fname, ok, 'Constant::load returns a clone of its own field')
            continue
        ok = len(loads) == 1 and b.postdominates(loads[0][0], 0)
        col.add('MUST-LOAD', '%s|one fresh load' % b.fname, ok, '%d inner load(s), executed on every path' % len(loads))
        # forwarding descends: the inner load is not this very impl again (directly, or through the blanket impl for
        # pointers applied to `&Self`, which derefs straight back here: unbounded recursion for that instantiation)
        for lbb, lt in loads:
            c = lt['callee']
            norm = lambda x: re.sub(r"\s+", ' ', (x or '').replace("'_ ", '').replace(" + '_", '')).strip()
            mine, theirs = norm(st), norm(c.get('self_ty'))
            same_trait = (c.get('trait') or '') == tr
            back = same_trait and theirs.lstrip('&').strip() == mine
            col.add('MUST-LOAD', '%s|forwarding descends' % b.fname, not back,
                    'the inner load dispatches on `%s` through %s (this impl: `%s` for %s)' % (c.get('self_ty'), (c.get('trait') or '').split('::')[-1], st, tr.split('::')[-1]), b.loc(lbb))
        if tr.endswith('access::DynAccess'):
            bx = [(bb, t) for bb, t in b.calls(include_cleanup=False) if U.callee_name(t) == 'new' and 'boxed::Box' in t['callee'].get('path', '')]
            okb = len(bx) == 1 and loads and b.origins(bx[0][1]['args'][0]) == {('call', loads[0][0])}
            col.add('MUST-LOAD', '%s|boxes exactly that guard' % b.fname, bool(okb), 'DynGuard(Box::new(Access::load(self)))')
    col.floor('MUST-LOAD', 'Access / DynAccess load impls', n, 9)
    b = _body(fx, '<access::DynGuard as std::ops::Deref>::deref')
    if col.anchor('MUST-LOAD', 'DynGuard::deref', b is not None):
        calls = [U.callee_name(t) for _, t in b.calls(include_cleanup=False)]
        col.add('MUST-LOAD', 'DynGuard::deref|derefs the box', set(calls) <= {'deref'}, 'calls: %s' % calls)


# --------------------------------------------------------------------------------------------
# SERDE-SHAPE

def rule_serde_shape(fx, col):
    if not fx.has_feature('serde'):
        return
    s = _body(fx, '<ArcSwapAny as serde::Serialize>::serialize')
    d = _body(fx, '<ArcSwapAny as serde::Deserialize>::deserialize')
    if not col.anchor('SERDE-SHAPE', 'serialize / deserialize', s is not None and d is not None):
        return
    calls = [(bb, t) for bb, t in s.calls(include_cleanup=False)]
    loads = [(bb, t) for bb, t in calls if U.callee_name(t) in ('load', 'load_full') and t['callee'].get('krate') == 'arc_swap']
    ser = [(bb, t) for bb, t in calls if any(s.origins(a) == {('arg', 2)} for a in t['args'])]
    ok = len(loads) == 1 and len(ser) == 1
    col.add('SERDE-SHAPE', 'serialize|one load, one use of the serializer', ok, '%d load(s), %d call(s) receiving the serializer' % (len(loads), len(ser)))
    if len(loads) == 1:
        # the value is borrowed by the CONTAINER's load (its own strategy `S`), not by a strategy picked here: a guard of another
        # strategy is not honoured by this container's writers (RwLock<()> writers never look at debts)
        lt = loads[0][1]
        own = 'ArcSwapAny' in (lt['callee'].get('pretty') or '') and bool(lt['args']) and s.origins(lt['args'][0]) == {('arg', 1)}
        col.add('SERDE-SHAPE', 'serialize|borrowed by the container\'s own load', own,
                'the one load is `%s` on %s (must be ArcSwapAny::load / load_full on self, which dispatches on the container\'s strategy)'
                % (lt['callee'].get('pretty'), sorted(s.origins(lt['args'][0])) if lt['args'] else '-'), s.loc(loads[0][0]))
    if ok:
        bb, t = ser[0]
        c = t['callee']
        is_t = U.callee_name(t) == 'serialize' and (c.get('trait_pretty') or '').endswith('Serialize') and c.get('self_is_param')
        src = s.origins(t['args'][0], through_calls=_deref_through)
        col.add('SERDE-SHAPE', 'serialize|T::serialize(&*guard, serializer)', is_t and src == {('call', loads[0][0])},
                'the pointee of the current value is serialized directly with the caller\'s serializer (callee %s)' % c.get('pretty'))
        # straight into the return place, or through a named local (`let result = ..; drop(guard); result`): nothing but that call feeds _0
        unchanged = t['dest']['local'] == 0 or s.origins(0) == {('call', bb)}
        col.add('SERDE-SHAPE', 'serialize|result returned unchanged', unchanged, 'no wrapping (serialize_newtype_struct / serialize_some / map) around it')
    others = [U.callee_name(t) for bb, t in calls if t['callee'].get('krate') == 'serde' and (bb, t) not in ser]
    col.add('SERDE-SHAPE', 'serialize|no other serde call', not others, 'other serde calls: %s' % others)
    # deserialize
    calls = [(bb, t) for bb, t in d.calls(include_cleanup=False)]
    de = [(bb, t) for bb, t in calls if U.callee_name(t) == 'deserialize' and t['callee'].get('self_is_param')]
    fr = [(bb, t) for bb, t in calls if U.callee_name(t) in ('from', 'new', 'with_strategy') and t['callee'].get('krate') in ('arc_swap', 'core') and 'ArcSwapAny' in (t['callee'].get('pretty') or '')]
    is_ctor = lambda t: U.callee_name(t) in ('from', 'new', 'with_strategy') and t['callee'].get('krate') in ('arc_swap', 'core') and 'ArcSwapAny' in (t['callee'].get('pretty') or '')
    via_map = None
    if len(de) == 1 and not fr:
        # `T::deserialize(d).map(|v| <constructor>(v ..))`: the constructor sits in a closure handed to Result::map on the result
        for cbb, ci, cb in U.closures_built(fx.lib, d):
            cfr = [(bb, t) for bb, t in cb.calls(include_cleanup=False) if is_ctor(t)]
            mp = [(bb, t) for bb, t in calls if U.callee_name(t) == 'map' and 'result::Result' in t['callee'].get('path', '') and
                  d.origins(t['args'][0]) == {('call', de[0][0])} and ('call', bb) in d.origins(0)]
            if len(cfr) == 1 and len(mp) == 1 and cb.origins(cfr[0][1]['args'][0]) == {('arg', 2)}:
                extra = [U.callee_name(t) for bb, t in cb.calls(include_cleanup=False) if U.callee_name(t) in ('clone', 'load', 'load_full', 'inc', 'store', 'swap')]
                via_map = (cfr[0], extra)
    if len(de) == 1 and not fr and via_map is None:
        # `T::deserialize(d).map(Self::from)`: the constructor is handed to Result::map as a function item
        for bb, t in calls:
            if U.callee_name(t) == 'map' and 'result::Result' in t['callee'].get('path', '') and d.origins(t['args'][0]) == {('call', de[0][0])} \
                    and ('call', bb) in d.origins(0) and len(t['args']) == 2 and t['args'][1]['k'] == 'const':
                fb = fx.lib.by_key.get(t['args'][1]['c'].get('fn'))
                fp = t['args'][1]['c'].get('fn_pretty') or ''
                if (fb is not None and fb.name in ('from', 'new') and fb.j.get('impl_self_adt') == 'arc_swap::ArcSwapAny') or \
                        re.match(r'^(<ArcSwapAny<T, S> as std::convert::From<T>>::from|ArcSwapAny::<T, S>::new)$', fp):
                    via_map = ((bb, t), [])
    ok = len(de) == 1 and (len(fr) == 1 or via_map is not None)
    col.add('SERDE-SHAPE', 'deserialize|T::deserialize then From', ok, '%d T::deserialize call(s), %d container constructor call(s)%s' % (len(de), len(fr), ' (constructor inside Result::map)' if via_map else ''))
    if ok and via_map is not None:
        col.add('SERDE-SHAPE', 'deserialize|the deserialized value goes in', True, 'T::deserialize(deserializer).map(|v| constructor(v, ..))')
        extra = via_map[1] + [U.callee_name(t) for bb, t in calls if U.callee_name(t) in ('clone', 'load', 'load_full', 'inc', 'store', 'swap')]
        col.add('SERDE-SHAPE', 'deserialize|single reference', not extra, 'no clone / load / store on the way: %s' % extra)
    elif ok:
        thr = lambda t: [0] if U.callee_name(t) in ('branch',) else None
        src = d.origins(fr[0][1]['args'][0], through_calls=thr)
        col.add('SERDE-SHAPE', 'deserialize|the deserialized value goes in', src == {('call', de[0][0])}, 'Self::from(T::deserialize(deserializer)?)')
        extra = [U.callee_name(t) for bb, t in calls if U.callee_name(t) in ('clone', 'load', 'load_full', 'inc', 'store', 'swap')]
        col.add('SERDE-SHAPE', 'deserialize|single reference', not extra, 'no clone / load / store on the way: %s' % extra)
    # transparency of the bounds: the container is (de)serializable exactly when its pointer is, for the same lifetime
    norm = lambda p_: re.sub(r"'\w+", "'_", p_)
    want = {'Serialize': {'T: ref_cnt::RefCnt', 'T: serde::Serialize', 'S: strategy::Strategy<T>'},
            'Deserialize': {'T: ref_cnt::RefCnt', "T: serde::Deserialize<'_>", 'S: strategy::Strategy<T>', 'S: std::default::Default'}}
    for tr, exp in want.items():
        imps = [i for i in fx.lib.impls if (i.get('trait_pretty') or '').endswith(tr) and i.get('self_adt') == 'arc_swap::ArcSwapAny']
        if col.anchor('SERDE-SHAPE', '%s impl (bounds)' % tr, len(imps) == 1):
            got = {norm(x) for x in imps[0]['predicates'] if not x.endswith(': std::marker::Sized')}
            col.add('SERDE-SHAPE', '%s|bounds are the pointer\'s own' % tr.lower(), got == exp,
                    'where-clauses %s (expected exactly %s: e.g. DeserializeOwned would drop every pointee that borrows from the input)' % (sorted(got), sorted(exp)))
    imp = [i for i in fx.lib.impls if (i.get('trait_pretty') or '').endswith('Deserialize') and i.get('self_adt') == 'arc_swap::ArcSwapAny']
    if col.anchor('SERDE-SHAPE', 'Deserialize impl', len(imp) == 1):
        preds = ' ; '.join(imp[0]['predicates'])
        col.add('SERDE-SHAPE', 'deserialize|needs only S: Default', 'S: std::default::Default' in preds, 'where-clauses: %s' % preds[:200])


# --------------------------------------------------------------------------------------------
# NO-STASH: nothing thread-local or static remembers a loaded pointer outside the debt slots

def rule_serde_module(fx, col):
    """C20 for anything else that lives in the serde module (a `#[serde(with = ..)]` helper added later): a function that takes the
    caller's serializer serializes the loaded pointer as a whole through `T::serialize` — it does not look inside it and write the
    pieces itself (a helper that writes `pointee.serialize(..)` for `Some(pointee)` drops the `Some` tag: not what the container's
    own impl writes)."""
    if not fx.has_feature('serde'):
        return
    n = 0
    for b in fx.lib.bodies:
        if not b.file.endswith('src/serde.rs') or '::tests' in b.fname or b.kind == 'Closure':
            continue
        calls = [(bb, t) for bb, t in b.calls(include_cleanup=False)]
        loads = [(bb, t) for bb, t in calls if U.callee_name(t) in ('load', 'load_full') and t['callee'].get('krate') == 'arc_swap']
        sers = [(bb, t) for bb, t in calls if t['callee'].get('krate') == 'serde' and (t['callee'].get('trait_pretty') or '').endswith(('Serialize', 'Serializer')) and not b.is_cleanup(bb)]
        if not loads or not sers:
            continue
        n += 1
        whole = [(bb, t) for bb, t in sers if U.callee_name(t) == 'serialize' and t['callee'].get('self_is_param') and b.origins(t['args'][0], through_calls=_deref_through) == {('call', loads[0][0])}]
        # ... or spells out exactly what `Option<_>::serialize` does: serialize_some(<from the load>) / serialize_none()
        names = sorted(U.callee_name(t) for _, t in sers)
        thr2 = lambda t: [0] if U.callee_name(t) in ('deref', 'as_deref', 'as_ref', 'borrow') else None
        option_spelled = names == ['serialize_none', 'serialize_some'] and all(
            ('call', loads[0][0]) in b.origins(t['args'][1], through_calls=thr2, fields=True) for _, t in sers if U.callee_name(t) == 'serialize_some' and len(t['args']) > 1)
        col.add('SERDE-SHAPE', '%s|serializes the loaded pointer as a whole' % b.fname, (len(sers) == 1 and len(whole) == 1) or option_spelled,
                '%d call(s) into serde: %s; exactly one, `T::serialize(&*guard, serializer)` on the loaded value itself' % (len(sers), [U.callee_name(t) for _, t in sers]), b.loc(sers[0][0]))
    col.floor('SERDE-SHAPE', 'serializing functions in the serde module', n, 1)


def rule_no_stash(fx, col):
    lib = fx.lib
    allowed = {('arc_swap::debt::list::LocalNode', 'node'), ('arc_swap::debt::fast::Local', 'offset'), ('arc_swap::debt::helping::Local', 'generation')}
    n = 0
    for b in lib.bodies:
        for bb, t in b.calls(include_cleanup=False):
            if 'cell::Cell' in t['callee'].get('path', '') and U.callee_name(t) in ('set', 'replace', 'swap') and t['args']:
                r, f = b.ref_path(t['args'][0])
                ff = [x for x in f if x['k'] == 'field']
                if ff:
                    n += 1
                    key = (ff[-1]['adt'], ff[-1]['name'])
                    # (the cell may sit inside a private newtype that is itself one of the admitted fields: `generation: Generation(Cell<usize>)`)
                    inside = next(((x['adt'], x['name']) for x in ff if (x['adt'], x['name']) in allowed), None)
                    if inside is not None:
                        key = inside
                    col.add('NO-STASH', '%s|Cell %s.%s' % (b.fname, U.short(key[0]), key[1]), key in allowed, 'thread-local cell written: %s' % (key,), b.loc(bb))
    col.floor('NO-STASH', 'thread-local cell writes', n, 3)
    st = sorted(s['pretty'].split('::')[-1] for s in lib.statics if '__RUST_STD_INTERNAL' not in s['pretty'])
    st_all = [s for s in lib.statics]
    ok = all(s['pretty'].endswith('LIST_HEAD') or 'THREAD_HEAD' in s['pretty'] for s in st_all)
    col.add('NO-STASH', 'statics', ok, 'statics of the crate: %s' % sorted(s['pretty'] for s in st_all))
    for k in ('arc_swap::debt::list::LocalNode', 'arc_swap::debt::fast::Local', 'arc_swap::debt::helping::Local'):
        a = lib.adts.get(k)
        if col.anchor('NO-STASH', 'struct ' + k, a is not None):
            bad = [x['name'] for x in a['variants'][0]['fields'] if '*' in x['ty'] and 'Node' not in x['ty']]
            col.add('NO-STASH', '%s|no pointer field' % k.split('::')[-1], not bad, 'raw-pointer fields: %s' % bad)


def rule_swap_shape(fx, col):
    """C04: swap hands back exactly what the RMW took out; into_inner / Drop release exactly the stored value"""
    cx = O.ctx(fx)
    b = _body(fx, 'arc_swap::ArcSwapAny::swap')
    if col.anchor('SWAP-SHAPE', 'ArcSwapAny::swap', b is not None):
        rmw = [s for s in cx.summ.sites_by_body.get(b.key, ()) if s.cls == 'cell' and s.op == 'swap']
        ip = [(bb, t) for bb, t in b.calls(include_cleanup=False) if U.callee_name(t) == 'into_ptr']
        fp = [(bb, t) for bb, t in b.calls(include_cleanup=False) if U.callee_name(t) == 'from_ptr']
        ok = len(rmw) == 1 and len(ip) == 1 and len(fp) == 1
        col.add('SWAP-SHAPE', 'swap|one RMW', ok, 'into_ptr x%d, cell.swap x%d, from_ptr x%d' % (len(ip), len(rmw), len(fp)))
        if ok:
            col.add('SWAP-SHAPE', 'swap|installs the new value', _call_bbs(b, rmw[0].arg(1)) == {ip[0][0]} and b.origins(ip[0][1]['args'][0]) == {('arg', 2)},
                    'the value written is into_ptr(new)')
            col.add('SWAP-SHAPE', 'swap|returns what the RMW took out', _call_bbs(b, fp[0][1]['args'][0]) == {rmw[0].bb} and (fp[0][1]['dest']['local'] == 0 or b.origins(0) == {('call', fp[0][0])}),
                    'the result is from_ptr(<value returned by the atomic swap>): the immediate predecessor in the cell\'s modification order')
    for fn, rel in (('arc_swap::ArcSwapAny::into_inner', ('from_ptr',)), ('<ArcSwapAny as std::ops::Drop>::drop', ('dec', 'from_ptr'))):
        b = _body(fx, fn)
        if not col.anchor('SWAP-SHAPE', fn, b is not None):
            continue
        gm = [s for s in cx.summ.sites_by_body.get(b.key, ()) if s.cls == 'cell' and s.op == 'get_mut']
        rl = [(bb, t) for bb, t in b.calls(include_cleanup=False) if U.callee_name(t) in rel and (t['callee'].get('trait') or '').endswith('ref_cnt::RefCnt')]
        ok = len(gm) == 1 and len(rl) == 1 and _call_bbs(b, rl[0][1]['args'][0]) == {gm[0].bb}
        col.add('SWAP-SHAPE', '%s|releases the stored value' % fn, ok, '%s(*self.ptr.get_mut()) exactly once' % '/'.join(rel))


def rule_guard_fields(fx, col):
    """C10: what a guard is made of: an owned pointer in a ManuallyDrop and an optional &'static debt"""
    lib = fx.lib
    g = lib.adts.get('arc_swap::Guard')
    if col.anchor('GUARD-FIELDS', 'struct Guard', g is not None):
        f = [(x['name'], x['ty']) for x in g['variants'][0]['fields']]
        col.add('GUARD-FIELDS', 'Guard|one field, the strategy\'s protection', len(f) == 1 and 'Protected' in f[0][1] and '&' not in f[0][1], 'fields: %s' % f)
        col.add('GUARD-FIELDS', 'Guard|no lifetime parameter', not any(x.startswith("'") for x in g.get('generics', [])), 'generics: %s' % g.get('generics'))
    p = lib.adts.get('arc_swap::strategy::hybrid::HybridProtection')
    if col.anchor('GUARD-FIELDS', 'struct HybridProtection', p is not None):
        f = {x['name']: x['ty'] for x in p['variants'][0]['fields']}
        nolt = not any(x.startswith("'") for x in p.get('generics', []))
        col.add('GUARD-FIELDS', 'HybridProtection|&\'static Debt', '&' in f.get('debt', '') and 'Debt' in f.get('debt', '') and nolt,
                'debt: %s in a struct without lifetime parameters, hence &\'static (nodes are never freed: NEVER-FREED)' % f.get('debt'))
        col.add('GUARD-FIELDS', 'HybridProtection|pointer by value', f.get('ptr', '').endswith('ManuallyDrop<T>'), 'ptr: %s' % f.get('ptr'))
        col.add('GUARD-FIELDS', 'HybridProtection|nothing else', set(f) == {'debt', 'ptr'}, 'fields: %s' % sorted(f))
        col.add('GUARD-FIELDS', 'HybridProtection|no lifetime parameter', not any(x.startswith("'") for x in p.get('generics', [])), 'generics: %s' % p.get('generics'))
