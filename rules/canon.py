"""Canonicalisation of names: align the entities (types, fields, functions, consts, statics) of the
tree under analysis with those of the tree the rules were written against (tables/reference_shape.json)
by *structure*, and rewrite the facts to the reference names before any rule runs.

Why: the rules name anchors (`Debt`, `ArcSwapAny.ptr`, `Debt::pay`, `LIST_HEAD`, `GEN_TAG` ...). A pure
rename, a move to another module, or a shifted `{impl#N}` index leaves behaviour unchanged and must
not change a verdict. Entities are matched by identity first (same parent, same name) and otherwise by
shape (field types, signature, value) when the match is unique; ambiguous or unmatched entities keep
their names (and unmatched *functions* are the "unknown helpers" that get inlined into their callers).
"""
import re
from collections import defaultdict

CRATE = 'arc_swap'


def _disp(key):
    """display path of a crate-local def key (as rustc prints it inside the crate)"""
    return key[len(CRATE) + 2:] if key.startswith(CRATE + '::') else key


_LT = re.compile(r"'[a-z_]\w*\s?")


def _norm_ty(ty, adt_disp_to_token):
    s = _LT.sub('', ty or '')
    # longest display paths first
    for d in sorted(adt_disp_to_token, key=len, reverse=True):
        s = re.sub(r'(?<![\w:])(?:%s::)?%s(?![\w])' % (CRATE, re.escape(d)), adt_disp_to_token[d], s)
    return s.replace(' ', '')


def shape_of(j):
    """structural description of a crate-facts JSON (used for the reference table and for the tree at hand)"""
    adts = {}
    for a in j['adts']:
        adts[a['key']] = dict(key=a['key'], pretty=a['pretty'], kind=a['kind'], generics=len([g for g in a.get('generics', []) if not g.startswith("'")]),
                              has_drop=a['has_drop'], repr_align=a.get('repr_align'), vis_pub=a.get('vis_pub'),
                              variants=[[(f['name'], f['ty']) for f in v['fields']] for v in a['variants']],
                              vnames=[v['name'] for v in a['variants']])
    fns = {}
    local_keys = {b['key'] for b in j['bodies']}

    def refs_of(b):
        out = set()

        def ops(o):
            if isinstance(o, dict):
                if o.get('k') == 'const' and isinstance(o.get('c'), dict) and o['c'].get('fn') in local_keys:
                    out.add(o['c']['fn'])
                if o.get('closure') in local_keys:
                    out.add(o['closure'])
                for v in o.values():
                    ops(v)
            elif isinstance(o, list):
                for v in o:
                    ops(v)
        for blk in b['blocks']:
            t = blk['term']
            if t['k'] == 'call':
                ck = t['callee'].get('resolved') or t['callee'].get('key')
                if ck in local_keys:
                    out.add(ck)
            ops(blk)
        out.discard(b['key'])
        return sorted(out)
    for b in j['bodies']:
        fns[b['key']] = dict(refs=refs_of(b), key=b['key'], name=b.get('name'), pretty=b['pretty'], kind=b['kind'], parent=b.get('parent'),
                             impl_self_adt=b.get('impl_self_adt'), impl_self_ty=b.get('impl_self_ty'), impl_trait=b.get('impl_trait'),
                             impl_trait_ref=b.get('impl_trait_ref'), trait_default_of=b.get('trait_default_of'),
                             arg_tys=[l['ty'] for l in b['locals'][1:1 + b['arg_count']]], ret_ty=b['locals'][0]['ty'],
                             generics=len(b.get('generics', [])), unsafe_fn=b.get('unsafe_fn'), nblocks=len(b['blocks']))
    consts = {}
    for c in j['consts']:
        consts[c['key']] = dict(key=c['key'], name=c.get('name'), pretty=c['pretty'], ty=c['ty'], int=c.get('int'), impl_self_ty=c.get('impl_self_ty'))
    statics = {}
    for s in j['statics']:
        statics[s['key']] = dict(key=s['key'], pretty=s['pretty'], ty=s['ty'], thread_local=s['thread_local'])
    return dict(adts=adts, fns=fns, consts=consts, statics=statics)


def merge_shapes(shapes):
    out = dict(adts={}, fns={}, consts={}, statics={})
    for sh in shapes:
        for k in out:
            for kk, v in sh[k].items():
                out[k].setdefault(kk, v)
    return out


def _module_of(key):
    parts = key.split('::')
    # strip trailing item / impl / closure segments
    while parts and (parts[-1].startswith('{') or True):
        parts = parts[:-1]
        break
    return '::'.join(parts)


class Alignment:
    def __init__(self, cur, ref):
        self.cur, self.ref = cur, ref
        self.adt = {}      # cur key -> ref key
        self.field = {}    # (ref adt key, variant idx, cur field name) -> ref field name
        self.fn = {}       # cur key -> ref key
        self.const = {}
        self.static = {}
        self.unmatched_fns = set()
        self.unmatched_closures = set()
        self._align_adts()
        self._align_fields()
        self._align_consts_statics()
        self._align_fns()

    # ---- ADTs
    def _tokens(self, side_adts, mapping_to_ref):
        """display path -> token for type normalisation; matched ADTs use the reference key as token"""
        t = {}
        for k in side_adts:
            t[_disp(k)] = '#' + mapping_to_ref[k] if k in mapping_to_ref else '@'
        return t

    def _adt_sig(self, a, tokens):
        return (a['kind'], a['generics'], a['has_drop'], a['repr_align'],
                tuple(tuple(_norm_ty(ty, tokens) for _, ty in v) for v in a['variants']))

    def _align_adts(self):
        cur, ref = self.cur['adts'], self.ref['adts']
        for k in cur:
            if k in ref:
                self.adt[k] = k
        for _ in range(4):
            cm = dict(self.adt)
            rm = {v: v for v in self.adt.values()}
            ctok = self._tokens(cur, cm)
            rtok = self._tokens(ref, rm)
            un_c = [k for k in cur if k not in self.adt]
            un_r = [k for k in ref if k not in self.adt.values()]
            if not un_c or not un_r:
                break
            by_sig_c, by_sig_r = defaultdict(list), defaultdict(list)
            for k in un_c:
                by_sig_c[self._adt_sig(cur[k], ctok)].append(k)
            for k in un_r:
                by_sig_r[self._adt_sig(ref[k], rtok)].append(k)
            changed = False
            for sig, cs in by_sig_c.items():
                rs = by_sig_r.get(sig, [])
                if len(cs) == 1 and len(rs) == 1:
                    self.adt[cs[0]] = rs[0]
                    changed = True
                elif cs and rs:
                    # disambiguate by name, then by module
                    for c in list(cs):
                        same_name = [r for r in rs if r.split('::')[-1] == c.split('::')[-1]]
                        if len(same_name) == 1:
                            self.adt[c] = same_name[0]
                            rs.remove(same_name[0])
                            cs.remove(c)
                            changed = True
                    # same short name on both sides (two `Local`s whose modules were renamed): the field names tell them apart
                    for c in list(cs):
                        fn_c = [tuple(n for n, _ in v) for v in cur[c]['variants']]
                        same = [r for r in rs if r.split('::')[-1] == c.split('::')[-1] and [tuple(n for n, _ in v) for v in ref[r]['variants']] == fn_c]
                        if len(same) == 1 and sum(1 for c2 in cs if c2.split('::')[-1] == c.split('::')[-1] and
                                                  [tuple(n for n, _ in v) for v in cur[c2]['variants']] == fn_c) == 1:
                            self.adt[c] = same[0]
                            rs.remove(same[0])
                            cs.remove(c)
                            changed = True
                    if len(cs) == 1 and len(rs) == 1:
                        self.adt[cs[0]] = rs[0]
                        changed = True
            if not changed:
                break

    def _align_fields(self):
        cur, ref = self.cur['adts'], self.ref['adts']
        ctok = self._tokens(cur, self.adt)
        rtok = self._tokens(ref, {v: v for v in self.adt.values()})
        for ck, rk in self.adt.items():
            ca, ra = cur[ck], ref[rk]
            for vi, (cv, rv) in enumerate(zip(ca['variants'], ra['variants'])):
                rnames = [n for n, _ in rv]
                used = set()
                pending = []
                for (cn, cty) in cv:
                    if cn in rnames:
                        used.add(cn)
                    else:
                        pending.append((cn, cty))
                free = [(rn, rty) for rn, rty in rv if rn not in used and rn not in [n for n, _ in cv]]
                for (cn, cty) in pending:
                    cands = [rn for rn, rty in free if _norm_ty(rty, rtok) == _norm_ty(cty, ctok)]
                    if len(cands) == 1:
                        self.field[(rk, vi, cn)] = cands[0]
                        free = [(rn, rty) for rn, rty in free if rn != cands[0]]
                    elif len(pending) == 1 and len(free) == 1:
                        self.field[(rk, vi, cn)] = free[0][0]
                        free = []

    # ---- consts / statics
    def _align_consts_statics(self):
        cur, ref = self.cur['consts'], self.ref['consts']
        ctok = self._tokens(self.cur['adts'], self.adt)
        rtok = self._tokens(self.ref['adts'], {v: v for v in self.adt.values()})

        def ident(c, tok):
            par = c['key'].rsplit('::', 1)[0]
            if c.get('impl_self_ty'):
                par = 'impl ' + _norm_ty(c['impl_self_ty'], tok)
            return (par, c.get('name'))
        rid = {ident(c, rtok): k for k, c in ref.items()}
        for k, c in cur.items():
            r = rid.get(ident(c, ctok))
            if r is not None:
                self.const[k] = r
        un_c = [k for k in cur if k not in self.const]
        un_r = [k for k in ref if k not in self.const.values()]
        for k in un_c:
            c = cur[k]
            cands = [r for r in un_r if ref[r].get('int') == c.get('int') and c.get('int') is not None
                     and _norm_ty(ref[r]['ty'], rtok) == _norm_ty(c['ty'], ctok)
                     and ident(ref[r], rtok)[0] == ident(c, ctok)[0]]
            if len(cands) == 1:
                self.const[k] = cands[0]
                un_r.remove(cands[0])
        # moved between a module and an impl block (`const N` -> `Self::N`): same name, same type, same value, unique on both sides
        un_c = [k for k in cur if k not in self.const]
        un_r = [k for k in ref if k not in self.const.values()]
        for k in un_c:
            c = cur[k]
            same = lambda x, tok: (x.get('name'), x.get('int'), _norm_ty(x['ty'], tok))
            cands = [r for r in un_r if same(ref[r], rtok) == same(c, ctok) and c.get('int') is not None]
            twins = [k2 for k2 in un_c if same(cur[k2], ctok) == same(c, ctok)]
            if len(cands) == 1 and len(twins) == 1:
                self.const[k] = cands[0]
                un_r.remove(cands[0])
        cur, ref = self.cur['statics'], self.ref['statics']
        for k in cur:
            if k in ref:
                self.static[k] = k
        un_c = [k for k in cur if k not in self.static]
        un_r = [k for k in ref if k not in self.static.values()]
        for k in un_c:
            cands = [r for r in un_r if _norm_ty(ref[r]['ty'], rtok) == _norm_ty(cur[k]['ty'], ctok) and ref[r]['thread_local'] == cur[k]['thread_local']]
            if len(cands) == 1:
                self.static[k] = cands[0]
                un_r.remove(cands[0])

    # ---- functions
    def _align_fns(self):
        cur, ref = self.cur['fns'], self.ref['fns']
        ctok = self._tokens(self.cur['adts'], self.adt)
        rtok = self._tokens(self.ref['adts'], {v: v for v in self.adt.values()})
        cadt = self.adt
        radt = {v: v for v in self.adt.values()}

        def parent_id(f, tok, amap):
            if f.get('impl_self_ty') is not None:
                st = '#' + amap[f['impl_self_adt']] if f.get('impl_self_adt') in amap and _simple_self(f) else _norm_ty(f['impl_self_ty'], tok)
                tr = f.get('impl_trait')
                return ('impl', st, tr)
            if f.get('trait_default_of'):
                return ('trait', f['trait_default_of'])
            return ('mod', f['key'].rsplit('::', 1)[0] if f['kind'] != 'Closure' else None)

        def sig(f, tok):
            return (len(f['arg_tys']), tuple(sorted(_norm_ty(t, tok) for t in f['arg_tys'])), _norm_ty(f['ret_ty'], tok), f['generics'])

        items_c = {k: f for k, f in cur.items() if f['kind'] != 'Closure'}
        items_r = {k: f for k, f in ref.items() if f['kind'] != 'Closure'}
        rid = defaultdict(list)
        for k, f in items_r.items():
            rid[(parent_id(f, rtok, radt), f['name'])].append(k)
        # 1. same parent, same name (trait impls for several self types are told apart by the self type in parent_id)
        for k, f in items_c.items():
            rs = rid.get((parent_id(f, ctok, cadt), f['name']), [])
            rs = [r for r in rs if r not in self.fn.values()]
            if len(rs) == 1:
                self.fn[k] = rs[0]
            elif len(rs) > 1:
                same_sig = [r for r in rs if sig(items_r[r], rtok) == sig(f, ctok)]
                if len(same_sig) == 1:
                    self.fn[k] = same_sig[0]
        # 2. same parent, unique signature among the unmatched: a rename
        un_c = [k for k in items_c if k not in self.fn]
        un_r = [k for k in items_r if k not in self.fn.values()]
        by_c, by_r = defaultdict(list), defaultdict(list)
        for k in un_c:
            by_c[(parent_id(items_c[k], ctok, cadt), sig(items_c[k], ctok))].append(k)
        for k in un_r:
            by_r[(parent_id(items_r[k], rtok, radt), sig(items_r[k], rtok))].append(k)
        for key, cs in by_c.items():
            rs = by_r.get(key, [])
            if len(cs) == 1 and len(rs) == 1:
                self.fn[cs[0]] = rs[0]
        # 2b. same parent and signature, several candidates (a function was renamed AND a helper with the same signature was
        # split off it): the one used from the same places. Callers are compared as the named functions they (or, for closures,
        # their enclosing functions) are aligned with.
        def callers(fns, to_ref):
            def root(k):
                while k in fns and fns[k]['kind'] == 'Closure' and fns[k].get('parent'):
                    k = fns[k]['parent']
                return k
            out = defaultdict(set)
            for k, f in fns.items():
                rk = root(k)
                rk = to_ref(rk)
                for r_ in f.get('refs', ()):
                    if root(r_) != root(k):
                        out[r_].add(rk)
            return out
        ccall = callers(cur, lambda k: self.fn.get(k))
        rcall = callers(ref, lambda k: k)
        un_r = [k for k in items_r if k not in self.fn.values()]
        by_r = defaultdict(list)
        for k in un_r:
            by_r[(parent_id(items_r[k], rtok, radt), sig(items_r[k], rtok))].append(k)
        for key, cs in by_c.items():
            cs = [c for c in cs if c not in self.fn]
            rs = [r for r in by_r.get(key, []) if r not in self.fn.values()]
            if len(rs) == 1 and len(cs) > 1 and rcall.get(rs[0]):
                same = [c for c in cs if ccall.get(c) and None not in ccall[c] and ccall[c] == rcall[rs[0]]]
                if len(same) == 1:
                    self.fn[same[0]] = rs[0]
        # 3. moved between modules / inherent <-> free: same name, unique on both sides, same arity
        un_c = [k for k in items_c if k not in self.fn]
        un_r = [k for k in items_r if k not in self.fn.values()]
        nc, nr = defaultdict(list), defaultdict(list)
        for k in un_c:
            nc[items_c[k]['name']].append(k)
        for k in un_r:
            nr[items_r[k]['name']].append(k)
        for name, cs in nc.items():
            rs = nr.get(name, [])
            if len(cs) == 1 and len(rs) == 1 and len(items_c[cs[0]]['arg_tys']) == len(items_r[rs[0]]['arg_tys']):
                self.fn[cs[0]] = rs[0]
        # closures follow their parents. Same number of closures under a parent on both sides: by position (closure#i). A
        # different number (a closure was added or removed): order-preserving match on the signature (argument types after
        # the environment, return type), so that a new closure written *before* an existing one does not shift the others.
        def csig(f, tok):
            return (tuple(_norm_ty(t, tok) for t in f['arg_tys'][1:]), _norm_ty(f['ret_ty'], tok))

        def children(fns):
            ch = defaultdict(list)
            for k, f in fns.items():
                if f['kind'] == 'Closure' and f.get('parent'):
                    ch[f['parent']].append(k)
            num = lambda k: int(re.search(r'closure#(\d+)\}$', k).group(1)) if re.search(r'closure#(\d+)\}$', k) else 0
            for p_ in ch:
                ch[p_].sort(key=num)
            return ch
        cch, rch = children(cur), children(ref)
        work = [(k, None) for k in cur if cur[k]['kind'] != 'Closure' and k in self.fn]
        helpers_done = False
        while work or not helpers_done:
            if not work:
                # closures of a helper that was split off a known function (and is spliced back into it for the rules): they take the
                # place of that function's own closures. Only when exactly one of the helper's callers has closures left over.
                helpers_done = True
                matched_r = set(self.fn.values())
                for hk, hf in cur.items():
                    if hf['kind'] == 'Closure' or hk in self.fn or not cch.get(hk):
                        continue
                    hosts = [fk for fk, ff in cur.items() if ff['kind'] != 'Closure' and fk in self.fn and hk in ff.get('refs', ())]
                    cands = [fk for fk in hosts if any(rk not in matched_r for rk in rch.get(self.fn[fk], []))]
                    if len(cands) == 1:
                        work.append((hk, self.fn[cands[0]]))
                if not work:
                    break
            pk, as_ref = work.pop()
            rparent = as_ref if as_ref is not None else self.fn[pk]
            cs, rs = [c for c in cch.get(pk, []) if c not in self.fn], [r for r in rch.get(rparent, []) if r not in set(self.fn.values())]
            if len(cs) == len(rs) and all(csig(cur[c_], ctok) == csig(ref[r_], rtok) for c_, r_ in zip(cs, rs)):
                pairs = list(zip(cs, rs))
            else:
                # longest common subsequence on signatures
                A = [csig(cur[k], ctok) for k in cs]
                B = [csig(ref[k], rtok) for k in rs]
                n, m = len(A), len(B)
                L = [[0] * (m + 1) for _ in range(n + 1)]
                for i in range(n - 1, -1, -1):
                    for j2 in range(m - 1, -1, -1):
                        L[i][j2] = L[i + 1][j2 + 1] + 1 if A[i] == B[j2] else max(L[i + 1][j2], L[i][j2 + 1])
                pairs, i, j2 = [], 0, 0
                while i < n and j2 < m:
                    if A[i] == B[j2]:
                        pairs.append((cs[i], rs[j2])); i += 1; j2 += 1
                    elif L[i + 1][j2] >= L[i][j2 + 1]:
                        i += 1
                    else:
                        j2 += 1
            for ck, rk in pairs:
                self.fn[ck] = rk
                work.append((ck, None))
        self.unmatched_fns = {k for k, f in cur.items() if f['kind'] != 'Closure' and k not in self.fn}
        self.unmatched_closures = {k for k, f in cur.items() if f['kind'] == 'Closure' and k not in self.fn}


def _simple_self(f):
    return True


# --------------------------------------------------------------------------------------------
# rewriting

KEY_FIELDS = {'key', 'resolved', 'adt', 'self_adt', 'impl_self_adt', 'direct_adt', 'array_adt', 'closure', 'fn', 'parent', 'impl',
              'def', 'static', 'self_closure', 'owner', 'trait', 'impl_trait', 'trait_default_of'}


class Rewriter:
    def __init__(self, al):
        self.al = al
        cur, ref = al.cur, al.ref
        self.keymap = {}
        for c, r in al.adt.items():
            if c != r:
                self.keymap[c] = r
        for c, r in al.fn.items():
            if c != r:
                self.keymap[c] = r
        # a closure without counterpart whose own key is the target of another (shifted) closure must get out of the way
        targets = set(al.fn.values())
        for c in getattr(al, 'unmatched_closures', ()):
            if c in targets and c not in self.keymap:
                self.keymap[c] = c + '{unaligned}'
        for c, r in al.const.items():
            if c != r:
                self.keymap[c] = r
        for c, r in al.static.items():
            if c != r:
                self.keymap[c] = r
        # display substitutions for renamed / moved types, consts and statics
        self.disp = []
        for c, r in list(al.adt.items()) + list(al.const.items()) + list(al.static.items()):
            if c != r and _disp(c) != _disp(r):
                self.disp.append((re.compile(r'(?<![\w:])((?:%s::)?)%s(?![\w])' % (CRATE, re.escape(_disp(c)))), r'\g<1>' + _disp(r).replace('\\', '\\\\')))
        # impl-associated consts are printed through their type: `debt::Debt::NO_DEBT`, `<X as Config>::USE_FAST_SLOTS`
        for c, r in al.const.items():
            cn, rn = cur['consts'][c].get('name'), ref['consts'][r].get('name')
            if cn and rn and cn != rn:
                self.disp.append((re.compile(r'::%s(?![\w])' % re.escape(cn)), '::' + rn))
        self.fn_names = {}
        for c, r in al.fn.items():
            cn, rn = cur['fns'][c].get('name'), ref['fns'][r].get('name')
            if cn and rn and cn != rn:
                self.fn_names[c] = (cn, rn)
        self.ref_fn = ref['fns']
        self.active = bool(self.keymap or self.disp or al.field or self.fn_names)

    def _k(self, s):
        if s in self.keymap:
            return self.keymap[s]
        # closures / nested items of a renamed function
        for c, r in self.keymap.items():
            if s.startswith(c + '::'):
                return r + s[len(c):]
        return s

    def _d(self, s):
        for pat, rep in self.disp:
            s = pat.sub(rep, s)
        return s

    def rewrite(self, j):
        if not self.active:
            return j
        self._walk(j, None)
        return j

    def _walk(self, o, parent_key):
        from .mir import DISPLAY_FIELDS
        if isinstance(o, dict):
            # callee / fn-constant / instance objects whose function was renamed
            fk = o.get('resolved') or o.get('key') or o.get('fn')
            ren = None
            for cand in (o.get('key'), o.get('resolved'), o.get('fn')):
                if isinstance(cand, str) and cand in self.fn_names:
                    ren = self.fn_names[cand]
            if ren:
                cn, rn = ren
                pat = re.compile(r'::%s(?![\w])' % re.escape(cn))
                for f in ('path', 'pretty', 'resolved_pretty', 'fn_pretty', 'text'):
                    if isinstance(o.get(f), str):
                        o[f] = pat.sub('::' + rn, o[f])
                if o.get('name') == cn:
                    o['name'] = rn
            # bodies take the reference's identity wholesale
            if 'blocks' in o and isinstance(o.get('key'), str) and o['key'] in self.al.fn:
                r = self.ref_fn[self.al.fn[o['key']]]
                o['pretty'] = r['pretty']
                if r.get('name'):
                    o['name'] = r['name']
            # field renames
            if o.get('k') == 'field' and isinstance(o.get('adt'), str):
                rk = self._k(o['adt'])
                for vi in (0, 1, 2, 3):
                    nn = self.al.field.get((rk, vi, o.get('name')))
                    if nn is not None:
                        o['name'] = nn
                        break
            if o.get('k') == 'aggregate' and o.get('agg') == 'adt' and 'field_names' in o:
                rk = self._k(o.get('adt'))
                o['field_names'] = [self.al.field.get((rk, 0, n), self.al.field.get((rk, 1, n), n)) for n in o['field_names']]
            if 'variants' in o and isinstance(o.get('key'), str) and 'kind' in o and 'repr_c' in o:
                rk = self._k(o['key'])
                for vi, v in enumerate(o['variants']):
                    for f in v['fields']:
                        nn = self.al.field.get((rk, vi, f['name']))
                        if nn is not None:
                            f['name'] = nn
                if rk in self.al.ref['adts']:
                    o['pretty'] = self.al.ref['adts'][rk]['pretty']
            if isinstance(o.get('key'), str) and o['key'] in self.al.const and 'int' in o and 'ty' in o and 'blocks' not in o:
                r = self.al.ref['consts'][self.al.const[o['key']]]
                o['pretty'] = r['pretty']
                if r.get('name'):
                    o['name'] = r['name']
            if isinstance(o.get('key'), str) and o['key'] in self.al.static and 'thread_local' in o:
                o['pretty'] = self.al.ref['statics'][self.al.static[o['key']]]['pretty']
            for k, v in list(o.items()):
                if isinstance(v, str):
                    if k in KEY_FIELDS:
                        o[k] = self._k(v)
                    elif k in DISPLAY_FIELDS and self.disp:
                        o[k] = self._d(v)
                elif isinstance(v, list) and v and all(isinstance(x, str) for x in v):
                    if k in DISPLAY_FIELDS and self.disp:
                        o[k] = [self._d(x) for x in v]
                else:
                    self._walk(v, None)
        elif isinstance(o, list):
            for x in o:
                self._walk(x, None)
