"""Obligation model shared by all rules."""
import json
import os


class Ob:
    """One rule instance (obligation). ok=False is a violation."""
    __slots__ = ('rule', 'key', 'ok', 'detail', 'loc', 'cfg', 'path')

    def __init__(self, rule, key, ok, detail='', loc='', cfg='', path=None):
        self.rule = rule
        self.key = key          # line-free identity: function path + instance
        self.ok = bool(ok)
        self.detail = detail
        self.loc = loc
        self.cfg = cfg
        self.path = path        # optional list (blocks / call chain)

    def ident(self):
        return '%s|%s' % (self.rule, self.key)

    def to_json(self):
        d = dict(rule=self.rule, key=self.key, ok=self.ok, detail=self.detail, loc=self.loc, cfg=self.cfg)
        if self.path:
            d['path'] = self.path
        return d


class Collector:
    """Collects obligations of one property run for one configuration."""

    def __init__(self, cfg):
        self.cfg = cfg
        self.obs = []

    def add(self, rule, key, ok, detail='', loc='', path=None):
        self.obs.append(Ob(rule, key, ok, detail, loc, self.cfg, path))
        return ok

    def ok(self, rule, key, detail='', loc=''):
        return self.add(rule, key, True, detail, loc)

    def fail(self, rule, key, detail='', loc='', path=None):
        return self.add(rule, key, False, detail, loc, path)

    def anchor(self, rule, what, found, detail=''):
        """fail closed when an anchor a rule needs is missing"""
        if not found:
            self.fail('ANCHOR', '%s|%s' % (rule, what), 'anchor missing: %s %s' % (what, detail))
        return bool(found)

    def floor(self, rule, what, count, minimum):
        """a rule that matches fewer instances than were confirmed by hand must not pass"""
        return self.add('FLOOR', '%s|%s' % (rule, what), count >= minimum,
                        '%s: %d instance(s), floor %d' % (what, count, minimum))


def load_table(name):
    p = os.path.join(os.path.dirname(os.path.abspath(__file__)), 'tables', name)
    return json.load(open(p))
