"""Isolation rules (C12): ADDR-GUARD, GEN-REVALIDATE, ADDR-BEFORE-GEN, OWN-STORAGE (DESIGN.md §3.6)."""
from . import util as U
from . import ordering as O
from . import progress as P


def _helper_bodies(cx):
    out = []
    for key, sites in cx.summ.sites_by_body.items():
        if any(s.cls == 'control' and s.op.startswith('compare_exchange') for s in sites):
            out.append(cx.lib.by_key[key])
    return out


def rule_addr_guard(fx, col):
    cx = O.ctx(fx)
    hs = _helper_bodies(cx)
    col.floor('ADDR-GUARD', 'helper bodies', len(hs), 1)
    for b in hs:
        fn = b.fname
        sites = cx.summ.sites_by_body[b.key]
        cas = [s for s in sites if s.cls == 'control' and s.op.startswith('compare_exchange')]
        addr_loads = [s for s in sites if s.cls == 'active_addr' and s.op == 'load']
        repl_calls = [(bb, t) for bb, t in b.calls(include_cleanup=False) if t['callee'].get('self_is_param') and (t['callee'].get('trait_pretty') or '').endswith(('ops::Fn', 'ops::FnMut', 'ops::FnOnce'))]
        if not col.anchor('ADDR-GUARD', '%s|anchors' % fn, cas and addr_loads,
                          'control CAS %d, active_addr loads %d' % (len(cas), len(addr_loads))):
            continue
        # REPLACEMENT-FRESH: what is handed over was produced by the caller's closure in this very iteration
        ho = [s for s in sites if s.cls == 'handover' and s.op in ('store', 'swap')]
        thr = lambda tt: [0] if U.callee_name(tt) in ('as_ptr', 'deref', 'borrow') else None
        for hs in ho:
            src = b.origins(hs.arg(1), through_calls=thr, binops=True)
            calls = {o[1] for o in src if o[0] == 'call'}
            direct = {bb for bb, _ in repl_calls}
            lp = [bl for h, bl, tl in b.loops() if hs.bb in bl]
            same_iter = all(x in (lp[0] if lp else set(range(b.n))) and b.dominates(x, hs.bb) for x in calls)
            ok = bool(calls) and calls <= direct and same_iter and all(o[0] == 'call' for o in src)
            others = sorted(U.callee_name(b.term(x)) for x in calls - direct)
            col.add('REPLACEMENT-FRESH', '%s|offered value' % fn, ok,
                    'the value written into the envelope is the result of replacement() called in the same retry iteration' if ok else
                    'the value offered to the reader does not come straight from a replacement() call of this iteration (comes through: %s): it may predate the reader\'s current transaction' % (others or sorted(src)), hs.loc)
        col.floor('REPLACEMENT-FRESH', 'hand-over stores in %s' % fn, len(ho), 1)
        loops = b.loops()
        for c in cas:
            lp = [(h, bl) for h, bl, tl in loops if c.bb in bl]
            blocks = lp[0][1] if lp else set(range(b.n))
            # (1) guarded by active_addr == storage_addr (a parameter), equal outcome
            for what, xbb in [('handover CAS', c.bb)] + [('replacement()', bb) for bb, _ in repl_calls]:
                ok = False
                why = 'not guarded by the address comparison'
                for (sbb, succ, val) in U.dominating_branches(b, xbb, unwind=False):
                    r = U.bool_outcome(b, sbb, val)
                    if not r or not r[0] or r[0][0] != 'rv' or r[0][3]['k'] != 'binop' or r[0][3]['op'] not in ('Eq', 'Ne'):
                        continue
                    rv, truth = r[0][3], r[1]
                    eq = (rv['op'] == 'Eq') == truth
                    lo, ro = b.origins(rv['l']), b.origins(rv['r'])
                    a_side = [s for s in addr_loads if ('call', s.bb) in lo | ro]
                    p_side = any(o[0] == 'arg' for o in lo | ro)
                    if a_side and p_side:
                        fresh = all(s.bb in blocks for s in a_side)
                        theirs = all(s.root != ('arg', 1) for s in a_side)
                        if eq and fresh and theirs:
                            ok = True
                            why = 'guarded by who.active_addr.load() == storage_addr, re-read in the iteration that helps (%s)' % a_side[0].loc
                        elif not eq:
                            why = 'runs on the UNEQUAL outcome of the address comparison'
                        elif not fresh:
                            why = 'the address was read outside the retry loop (stale after the reader moved on to another container)'
                        elif not theirs:
                            why = 'compares the helper\'s own active_addr'
                col.add('ADDR-GUARD', '%s|%s' % (fn, what), ok, why, b.loc(xbb))
            # (2) GEN-REVALIDATE: the expected value is the matched loop variable, not a fresh load
            exp = c.arg(1)
            el = exp['place']['local'] if exp['k'] in ('copy', 'move') else None
            src = b.origins(exp)
            matched = False

            def chain(op):
                # follow single-definition plain copies: (root local, blocks in which the copies are made)
                bbs = []
                for _ in range(8):
                    if op is None or op.get('k') not in ('copy', 'move') or op['place']['proj']:
                        return None, bbs
                    l = op['place']['local']
                    ds = b.assigns().get(l, [])
                    if len(ds) == 1 and ds[0][2] == 'stmt' and not ds[0][4] and ds[0][3]['k'] == 'use' and ds[0][3]['op'].get('k') in ('copy', 'move') \
                            and not ds[0][3]['op']['place']['proj']:
                        bbs.append(ds[0][0])
                        op = ds[0][3]['op']
                        continue
                    return l, bbs
                return None, bbs
            root_e, chain_e = chain(exp)
            # the expected value is READ from the loop variable in this iteration: a copy made before the loop (a closure that captured
            # the variable by value when it was built) still holds the generation of the first look
            stale = root_e is not None and any(x not in blocks for x in chain_e) and len(b.assigns().get(root_e, [])) > 1
            for bb in blocks:
                t = b.term(bb)
                if t['k'] == 'switch':
                    d = U.def_rvalue(b, t['discr'])
                    if d and d[0] == 'rv' and d[3]['k'] == 'binop' and d[3]['op'] == 'BitAnd' and U.int_of(b, d[3]['r']) == cx.TAG_MASK:
                        if b.origins(d[3]['l']) == src and b.dominates(bb, c.bb):
                            # the GEN_TAG arm leads to the CAS
                            gen_succ = [tb for v, tb in t['targets'] if v == cx.GEN_TAG]
                            if gen_succ and b.dominates(gen_succ[0], c.bb):
                                matched = True
            if not matched:
                # the `if` / `while` form of the dispatch: `gen & TAG_MASK == GEN_TAG` taken on the equal outcome
                for (sbb, succ, val) in U.dominating_branches(b, c.bb, unwind=False):
                    r = U.bool_outcome(b, sbb, val) if sbb in blocks else None
                    if not r or not r[0] or r[0][0] != 'rv' or r[0][3]['k'] != 'binop' or r[0][3]['op'] not in ('Eq', 'Ne'):
                        continue
                    rv, truth = r[0][3], r[1]
                    if (rv['op'] == 'Eq') != truth:
                        continue
                    for x, y in ((rv['l'], rv['r']), (rv['r'], rv['l'])):
                        dx = U.def_rvalue(b, x)
                        if U.int_of(b, y) == cx.GEN_TAG and dx and dx[0] == 'rv' and dx[3]['k'] == 'binop' and dx[3]['op'] == 'BitAnd' \
                                and U.int_of(b, dx[3]['r']) == cx.TAG_MASK and b.origins(dx[3]['l']) == src:
                            matched = True
            fresh_between = [s for s in sites if s.cls == 'control' and s.op == 'load' and s.bb in blocks and ('call', s.bb) in src
                             and not _is_loop_carried(b, s, blocks)]
            col.add('GEN-REVALIDATE', '%s|expected is the matched generation' % fn, matched and not stale,
                    'the compare_exchange expects the control value that was matched as GEN_TAG in this iteration (success proves the reader is still in that transaction)', c.loc)
            # (3) the published address is only compared, never dereferenced or loaded from
            for s in addr_loads:
                d = s.term['dest']['local']
                bad = []
                for bb in range(b.n):
                    for i, st in enumerate(b.stmts(bb)):
                        if st['k'] != 'assign':
                            continue
                        if d in set(U.stmt_locals_used(st)):
                            rv = st['rv']
                            if rv['k'] == 'use' or (rv['k'] == 'binop' and rv['op'] in ('Eq', 'Ne')):
                                continue
                            bad.append(b.loc(bb, i))
                    t = b.term(bb)
                    if t['k'] == 'call' and d in set(U.term_locals_used(t)):
                        bad.append(b.loc(bb))
                col.add('ADDR-GUARD', '%s|address only compared' % fn, not bad, 'uses of the published address other than the comparison: %s' % bad, s.loc)
        # (3b) HELP-UNCONDITIONAL: once the tag says "reader in its intent window" and the address matches, the hand-over is
        #      attempted; no further condition may let the helper walk away (the reader would then confirm a candidate that
        #      nobody protects)
        for c in cas:
            lp = [(h, bl) for h, bl, tl in loops if c.bb in bl]
            blocks = lp[0][1] if lp else set(range(b.n))
            extra = []
            for (sbb, succ, val) in U.dominating_branches(b, c.bb, unwind=False):
                if sbb not in blocks:
                    continue
                others = [tb for tb in b.succs(False)[sbb] if tb != succ]
                if others and all(not any(b.term(x)['k'] == 'return' or x == c.bb for x in b.reach_from(o, unwind=False, avoid={succ}))
                                  for o in others):
                    continue  # an assertion: the other edge only panics (PANIC-INV discharges those)
                for f in U.edge_facts(b, sbb, succ):
                    if f[0] == 'bool' and f[1]:
                        d = f[1]
                        if d[0] == 'rv' and d[3]['k'] == 'binop' and d[3]['op'] in ('Eq', 'Ne'):
                            tagd = False
                            for x, y in ((d[3]['l'], d[3]['r']), (d[3]['r'], d[3]['l'])):
                                dx = U.def_rvalue(b, x)
                                if U.int_of(b, y) in (cx.GEN_TAG, cx.REPLACEMENT_TAG, cx.IDLE) and dx and dx[0] == 'rv' and dx[3]['k'] == 'binop' \
                                        and dx[3]['op'] == 'BitAnd' and U.int_of(b, dx[3]['r']) == cx.TAG_MASK:
                                    tagd = True
                            if tagd:
                                continue  # the dispatch on the tag of the control word, written as a comparison
                            src = b.origins(d[3]['l']) | b.origins(d[3]['r'])
                            if any(o[0] == 'call' and o[1] in [s.bb for s in addr_loads] for o in src):
                                continue  # the address guard
                            if any(o[0] == 'call' and U.callee_name(b.term(o[1])) == 'load' and U.is_atomic_callee(b.term(o[1])['callee'])
                                   and U.Site(b, o[1], b.term(o[1])).cls == 'control' for o in src):
                                continue  # "control changed meanwhile" re-check
                        if d[0] == 'call' and U.callee_name(d[2]) == 'eq' and 'ptr' in d[2]['callee'].get('path', ''):
                            continue  # debug_assert!(!ptr::eq(self, who))
                        extra.append('%s at %s' % (U.describe_cond(b, d), b.loc(sbb)))
                    elif f[0] == 'variant':
                        extra.append('variant test at %s' % b.loc(sbb))
            col.add('ADDR-GUARD', '%s|help is unconditional once the address matches' % fn, not extra,
                    'extra conditions on the way to the hand-over: %s' % extra if extra else 'inside the GEN_TAG arm only the address comparison guards the hand-over', c.loc)
        # (4) the replacement is produced by the caller-supplied closure only (the helper loads nothing itself)
        cell_ops = [s for s in sites if s.cls == 'cell']
        col.add('ADDR-GUARD', '%s|no direct cell access' % fn, not cell_ops, 'the helper never touches a cell itself: %s' % [s.loc for s in cell_ops])
        # (4b) the helper fills its OWN envelope, and reads which one that is only after replacement() returned
        #      (replacement() is a nested load that may itself be helped, which trades the helper's envelope away)
        own = [s for s in sites if s.cls == 'space_offer' and s.op == 'load' and s.root == ('arg', 1)]
        ho = [s for s in sites if s.cls == 'handover' and s.op in ('store', 'swap')]
        for hs in ho:
            recv = {o[1] for o in b.origins(hs.arg(0), binops=True) if o[0] == 'call'}
            mine = bool(own) and recv and recv <= {s.bb for s in own}
            col.add('ADDR-GUARD', '%s|fills its own envelope' % fn, mine,
                    'the envelope written is the one self.space_offer points to (receiver derives from %s)' % sorted(b.loc(x) for x in recv), hs.loc)
        for s in own:
            fresh = bool(repl_calls) and all(b.dominates(rb, s.bb) and rb != s.bb for rb, _ in repl_calls)
            col.add('ADDR-GUARD', '%s|own envelope read after replacement()' % fn, fresh,
                    'self.space_offer is read at %s, after the nested load that may have exchanged it' % s.loc, s.loc)
        # (5) their space is read before the exchange (afterwards the reader may already have moved on)
        sp = [s for s in sites if s.cls == 'space_offer' and s.op == 'load' and s.root != ('arg', 1)]
        for c in cas:
            ok = bool(sp) and all(b.dominates(s.bb, c.bb) and s.bb != c.bb for s in sp)
            col.add('ADDR-GUARD', '%s|their space read before the exchange' % fn, ok,
                    'who.space_offer is read at %s, before the control compare_exchange hands the transaction back to the reader' % [s.loc for s in sp], c.loc)


def _is_loop_carried(b, s, blocks):
    return True


def rule_addr_before_gen(fx, col):
    cx = O.ctx(fx)
    n = 0
    for key, sites in cx.summ.sites_by_body.items():
        b = cx.lib.by_key[key]
        intent = [s for s in sites if s.cls == 'control' and s.op == 'swap' and U.int_of(b, s.arg(1)) is None]
        if not intent:
            continue
        n += 1
        st = [s for s in sites if s.cls == 'active_addr' and s.op in ('store', 'swap')]
        ok = bool(st) and all(b.pos_dominates(b.term_pos(s.bb), b.term_pos(i.bb)) and s.bb != i.bb for s in st for i in intent)
        col.add('ADDR-BEFORE-GEN', '%s|address published before the generation' % b.fname, ok,
                'active_addr stored at %s before the generation goes into control' % [s.loc for s in st], intent[0].loc)
        same = bool(st) and all(s.root == i.root for s in st for i in intent)
        col.add('ADDR-BEFORE-GEN', '%s|same slot' % b.fname, same, 'address and generation are published in the same helping slot')
        val = bool(st) and all(all(o[0] == 'arg' for o in b.origins(s.arg(1))) for s in st)
        col.add('ADDR-BEFORE-GEN', '%s|address is the caller\'s' % b.fname, val, 'the address stored is the parameter handed down from the load')
    col.floor('ADDR-BEFORE-GEN', 'intent publishers', n, 1)


def _closure_capture(parent, bb, idx, closure_key):
    for i, st in enumerate(parent.stmts(bb)):
        if st['k'] == 'assign' and st['rv']['k'] == 'aggregate' and st['rv'].get('closure') == closure_key:
            f = st['rv']['fields']
            if idx < len(f):
                return f[idx]
    return None


def rule_own_storage(fx, col):
    cx = O.ctx(fx)
    lib = fx.lib
    n = 0
    for b in lib.bodies:
        if b.j.get('impl_self_adt') != 'arc_swap::ArcSwapAny' and not b.fname.startswith('<cache::Cache'):
            continue
        for bb, t in b.calls(include_cleanup=False):
            c = t['callee']
            if not (c.get('trait') or '').startswith('arc_swap::strategy::sealed') or c.get('name') not in ('load', 'wait_for_readers', 'compare_and_swap'):
                continue
            n += 1
            nm = c['name']
            r0, f0 = b.ref_path(t['args'][0])
            strat_ok = r0 == ('arg', 1) and [x['name'] for x in f0 if x['k'] == 'field'] == ['strategy']
            si = {'load': 1, 'wait_for_readers': 2, 'compare_and_swap': 1}[nm]
            r1, f1 = b.ref_path(t['args'][si])
            stor_ok = r1 == ('arg', 1) and [x['name'] for x in f1 if x['k'] == 'field'] == ['ptr']
            col.add('OWN-STORAGE', '%s|%s' % (b.fname, nm), strat_ok and stor_ok,
                    'self.strategy.%s(.., &self.ptr ..) uses the strategy and the cell of the same container' % nm, b.loc(bb))
            if nm == 'wait_for_readers':
                # old comes from an RMW / exclusive read of self.ptr
                src = b.origins(t['args'][1])
                good = False
                for o in src:
                    if o[0] == 'call' and U.is_atomic_callee(b.term(o[1])['callee']):
                        s = U.Site(b, o[1], b.term(o[1]))
                        if s.cls == 'cell' and s.root == ('arg', 1):
                            good = True
                col.add('OWN-STORAGE', '%s|old pointer from the same cell' % b.fname, good, 'the pointer whose debts are paid was taken out of self.ptr', b.loc(bb))
    col.floor('OWN-STORAGE', 'strategy calls in ArcSwapAny', n, 5)
    # Hybrid wait_for_readers: the replacement closure loads from the very storage whose address is passed on
    w = [b for b in lib.bodies if b.fname == '<strategy::hybrid::HybridStrategy as strategy::sealed::InnerStrategy>::wait_for_readers']
    if col.anchor('OWN-STORAGE', 'Hybrid wait_for_readers', len(w) == 1):
        b = w[0]
        clos = U.closures_built(lib, b)
        ok = len(clos) == 1
        why = '%d closures' % len(clos)
        if ok:
            cbb, ci, cb = clos[0]
            loads = [(x, tt) for x, tt in cb.calls(include_cleanup=False) if U.callee_name(tt) == 'load' and (tt['callee'].get('trait') or '').startswith('arc_swap::strategy::sealed')]
            ok = len(loads) == 1
            if ok:
                tt = loads[0][1]
                r, f = cb.ref_path(tt['args'][1])
                up = [x for x in f if x['k'] == 'field' and str(x['name']).startswith('upvar#')]
                ok = bool(up)
                if ok:
                    idx = int(str(up[0]['name']).split('#')[1])
                    cap = _closure_capture(b, cbb, idx, cb.key)
                    rr, ff = b.ref_path(cap) if cap else (None, [])
                    ok = rr == ('arg', 3) or (rr == ('local', 3))
                    why = 'the replacement closure calls self.load(storage) with the captured `storage` parameter (capture resolves to %s)' % (rr,)
        col.add('OWN-STORAGE', 'Hybrid wait_for_readers|replacement loads the same cell', ok, why)
    # the address published / compared is the address of the CELL: the `storage` parameter itself converted to an integer,
    # not the address of the local that holds the reference (`&storage as *const _ as usize` never matches anything)
    def ptr_level(b, op, argno, depth=0):
        """0 = the value of parameter `argno` (pointer to the cell); +1 per address-of, -1 per deref"""
        if op is None or depth > 10 or op.get('k') not in ('copy', 'move'):
            return None
        pl = op['place']
        def local_level(l, d):
            if l == argno:
                return 0
            ds = [x for x in b.assigns().get(l, ()) if not x[4]]
            if len(ds) != 1 or ds[0][2] != 'stmt':
                return None
            rv = ds[0][3]
            if rv['k'] in ('use', 'cast'):
                return ptr_level(b, rv['op'], argno, d + 1)
            if rv['k'] in ('ref', 'rawptr'):
                v = local_level(rv['place']['local'], d + 1)
                if v is None:
                    return None
                for e in rv['place']['proj']:
                    if e['k'] != 'deref':
                        return None
                    v -= 1
                return v + 1
            return None
        v = local_level(pl['local'], depth)
        if v is None:
            return None
        for e in pl['proj']:
            if e['k'] != 'deref':
                return None
            v -= 1
        return v
    n_addr = 0
    for fname, callee, ai, argno in (('<strategy::hybrid::HybridStrategy as strategy::sealed::InnerStrategy>::wait_for_readers', 'pay_all', 1, 3),
                                     ('arc_swap::strategy::hybrid::HybridProtection::fallback', 'new_helping', 1, 2)):
        for b in lib.bodies:
            if b.fname != fname:
                continue
            for bb, t in b.calls(include_cleanup=False):
                if U.callee_name(t) == callee and t['callee'].get('krate') == 'arc_swap':
                    n_addr += 1
                    lv = ptr_level(b, t['args'][ai], argno)
                    col.add('OWN-STORAGE', '%s|%s receives the address of the cell' % (b.fname, callee), lv == 0,
                            'the integer handed to %s is the `storage` parameter itself (pointer level %s; 0 = address of the cell, 1 = address of a local holding the reference)' % (callee, lv), b.loc(bb))
    col.floor('OWN-STORAGE', 'storage address conversions', n_addr, 2)
    # pay_all hands its storage_addr parameter down to help unchanged
    for b in lib.bodies:
        for bb, t, cb in cx.local_calls(b):
            if cb.fname == 'arc_swap::debt::list::LocalNode::help' or cb.fname == 'arc_swap::debt::helping::Slots::help':
                a = t['args'][2]
                src = b.origins(a)
                ok = bool(src) and all(o[0] == 'arg' for o in src)
                if not ok:
                    # through a closure capture
                    r, f = b.ref_path(a)
                    ok = any(str(x.get('name', '')).startswith('upvar#') for x in f)
                col.add('OWN-STORAGE', '%s|storage address passed down unchanged' % b.fname, ok, 'help(.., storage_addr, ..) receives the caller\'s address', b.loc(bb))
