"""Tiny forward dataflow engine over a mir.Body with edge-sensitive terminator transfer."""


def forward(body, init, stmt_fn, term_fn, join, unwind=True, entry=0, max_iter=10000):
    """
    init: state at entry
    stmt_fn(state, bb, idx, stmt) -> state
    term_fn(state, bb, term) -> {succ_bb: state}  (must cover the successors it wants to flow to)
    join(a, b) -> state ; states must be hashable/comparable with ==
    Returns (in_state: dict bb -> state, before_term: dict bb -> state)
    """
    in_state = {entry: init}
    before_term = {}
    work = [entry]
    it = 0
    while work:
        it += 1
        if it > max_iter:
            raise RuntimeError('dataflow did not converge in %s' % body.pretty)
        bb = work.pop()
        st = in_state[bb]
        for i, s in enumerate(body.stmts(bb)):
            st = stmt_fn(st, bb, i, s)
        before_term[bb] = st
        outs = term_fn(st, bb, body.term(bb))
        for succ in body.term_succs(bb, unwind):
            if succ not in outs:
                continue
            ns = outs[succ]
            if succ in in_state:
                j = join(in_state[succ], ns)
                if j != in_state[succ]:
                    in_state[succ] = j
                    work.append(succ)
            else:
                in_state[succ] = ns
                work.append(succ)
    return in_state, before_term


def enumerate_paths(body, start_bb, step, is_end, unwind=False, limit=20000, cut_back_edges=True):
    """Enumerate acyclic paths from start_bb. step(state, bb) -> iterable of (succ, new_state) or
    None to stop; is_end(bb) -> bool. Yields (path, state). Loops: each block at most once per
    path unless cut_back_edges is False."""
    out = []
    stack = [(start_bb, (start_bb,), None)]
    n = 0
    while stack:
        bb, path, state = stack.pop()
        n += 1
        if n > limit:
            raise RuntimeError('path explosion in %s' % body.pretty)
        if is_end(bb):
            out.append((path, state))
            continue
        for succ, ns in step(state, bb, path):
            if cut_back_edges and succ in path:
                out.append((path + (succ,), ('BACK', ns)))
                continue
            stack.append((succ, path + (succ,), ns))
    return out
