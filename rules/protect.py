"""Protection / reclamation rules: PUBLISH-CONFIRM, INTENT-FIRST, PAY-BEFORE-RELEASE, COVER-ALL,
RAII-SPAN, CLAIM-EMPTY, PAY-USED, SLOT-CLOSED (DESIGN.md §3.2, §3.5)."""
from . import util as U
from . import ordering as O
from . import progress as P

PROT = 'arc_swap::strategy::hybrid::HybridProtection'


def _call_bbs(b, op, through=None):
    return {o[1] for o in b.origins(op, through_calls=through) if o[0] == 'call'}


def _is_refcnt(t, *names):
    c = t['callee']
    return c.get('name') in names and (c.get('trait') or '').endswith('ref_cnt::RefCnt')


def _is_pay(t):
    return U.callee_name(t) == 'pay' and 'debt::Debt' in t['callee'].get('path', '')


def _prot_constructions(b):
    """[(bb, ptr_operand, debt_state, debt_operand)] for HybridProtection::new calls / aggregates"""
    out = []
    for bb, t in b.calls(include_cleanup=False):
        if U.callee_name(t) == 'new' and 'HybridProtection' in t['callee'].get('path', ''):
            pi, di = new_arg_positions(t)
            d = U.def_rvalue(b, t['args'][di])
            st = None
            dop = None
            if d and d[0] == 'rv' and d[3]['k'] == 'aggregate' and d[3].get('adt') == 'core::option::Option':
                st = d[3]['variant']
                dop = d[3]['fields'][0] if d[3]['fields'] else None
            out.append((bb, t['args'][pi], st, dop))
    return out


def new_arg_positions(t):
    """(index of the pointer argument, index of the debt argument) of a HybridProtection::new call, by type"""
    tys = t.get('arg_tys') or []
    di = [i for i, ty in enumerate(tys) if 'Option<' in ty and 'Debt' in ty]
    pi = [i for i, ty in enumerate(tys) if ty.strip().startswith('*')]
    if len(di) == 1 and len(pi) == 1:
        return pi[0], di[0]
    return 0, 1


def _switch_guard(b, bb):
    """[(None, truth, def)] for every boolean condition known to hold when bb executes"""
    out = []
    for f in U.dominating_facts(b, bb):
        if f[0] == 'bool' and f[1]:
            out.append((None, f[2], f[1]))
    return out


# --------------------------------------------------------------------------------------------

def rule_publish_confirm(fx, col):
    cx = O.ctx(fx)
    n = 0
    for b in fx.lib.bodies:
        pubs = [(bb, t, cb) for bb, t, cb in cx.local_calls(b) if cx.publishes_fast_debt(cb.key) and not b.is_cleanup(bb)
                and 'debt::Debt' in b.local_ty(t['dest']['local'])]
        cell = [s for s in cx.summ.sites_by_body.get(b.key, ()) if s.cls == 'cell' and s.op == 'load']
        if not pubs or not cell:
            continue
        n += 1
        fn = b.fname
        (pbb, pt, pcb) = pubs[0]
        col.add('PUBLISH-CONFIRM', '%s|single publish' % fn, len(pubs) == 1, '%d fast-debt publish call(s)' % len(pubs), b.loc(pbb))
        # L1: the load whose value is published
        l1 = [s for s in cell if s.bb in _call_bbs(b, pt['args'][-1])]
        confirm = [s for s in cell if b.pos_dominates(b.term_pos(pbb), b.term_pos(s.bb)) and s.bb != pbb]
        col.add('PUBLISH-CONFIRM', '%s|published value is a read of the cell' % fn, len(l1) == 1,
                'the pointer put into the debt slot comes from %s' % [s.loc for s in l1], b.loc(pbb))
        col.add('PUBLISH-CONFIRM', '%s|confirming re-read after publish' % fn, len(confirm) >= 1,
                'cell loads dominated by the publish: %s' % [s.loc for s in confirm], b.loc(pbb))
        if len(l1) != 1 or not confirm:
            continue
        L1 = l1[0]
        same_cell = all(s.root == L1.root and s.fields == L1.fields for s in confirm)
        col.add('PUBLISH-CONFIRM', '%s|same cell' % fn, same_cell, 'first read and re-read address the same cell')
        cons = _prot_constructions(b)
        col.add('PUBLISH-CONFIRM', '%s|constructions' % fn, len(cons) >= 1, '%d protection constructions' % len(cons))
        pays = [(bb, t) for bb, t in b.calls(include_cleanup=False) if _is_pay(t)]
        for (nbb, pop, st, dop) in cons:
            ptr_src = _call_bbs(b, pop)
            key = '%s|new(%s)@%d' % (fn, st, sum(1 for c in cons if c[2] == st and c[0] < nbb))
            if st == 'Some':
                guards = _switch_guard(b, nbb)
                ok = False
                why = 'not guarded by ptr == confirm'
                for (sbb, truth, d) in guards:
                    if d[0] == 'rv' and d[3]['k'] == 'binop' and d[3]['op'] in ('Eq', 'Ne'):
                        eq = (d[3]['op'] == 'Eq') == truth
                        ls, rs = _call_bbs(b, d[3]['l']), _call_bbs(b, d[3]['r'])
                        pair_ok = (ls == {L1.bb} and rs <= {c.bb for c in confirm} and rs) or (rs == {L1.bb} and ls <= {c.bb for c in confirm} and ls)
                        if eq and pair_ok:
                            ok = True
                            why = 'guarded by equality of the published read (%s) and the re-read' % L1.loc
                        elif pair_ok and not eq:
                            why = 'constructed on the UNEQUAL outcome'
                debt_ok = dop is not None and pbb in _call_bbs(b, dop, through=_try_through)
                dom = any(b.dominates(c.bb, nbb) for c in confirm)
                # on the equal outcome the first read and the re-read are the same value: either may be protected
                ptr_ok = bool(ptr_src) and ptr_src <= ({L1.bb} | {c.bb for c in confirm})
                col.add('PUBLISH-CONFIRM', key, ok and ptr_ok and debt_ok and dom,
                        '%s; pointer from %s; debt from the publish: %s; re-read dominates: %s' % (why, sorted(b.loc(x) for x in ptr_src), debt_ok, dom), b.loc(nbb))
            elif st == 'None':
                # only after a failed pay of this debt on this pointer
                ok = False
                why = 'an owning protection for the published pointer without a failed pay-back'
                for (sbb, truth, d) in _switch_guard(b, nbb):
                    if d[0] == 'call' and _is_pay(d[2]) and not truth:
                        recv_ok = pbb in _call_bbs(b, d[2]['args'][0], through=_try_through)
                        arg_ok = _call_bbs(b, d[2]['args'][1]) == {L1.bb}
                        if recv_ok and arg_ok:
                            ok = True
                            why = 'after pay(ptr) == false (a writer paid the debt: the count is ours)'
                col.add('PUBLISH-CONFIRM', key, ok and ptr_src == {L1.bb}, '%s; pointer from %s' % (why, sorted(b.loc(x) for x in ptr_src)), b.loc(nbb))
            else:
                col.fail('PUBLISH-CONFIRM', key, 'protection constructed with a debt that is neither Some(_) nor None literally', b.loc(nbb))
        # on the unequal outcome the debt is paid back (pay call dominated by the unequal edge)
        pay_on_mismatch = False
        for (bb, t) in pays:
            for (sbb, truth, d) in _switch_guard(b, bb):
                if d[0] == 'rv' and d[3]['k'] == 'binop' and d[3]['op'] in ('Eq', 'Ne') and ((d[3]['op'] == 'Eq') != truth):
                    if pbb in _call_bbs(b, t['args'][0], through=_try_through) and _call_bbs(b, t['args'][1]) == {L1.bb}:
                        pay_on_mismatch = True
        col.add('PUBLISH-CONFIRM', '%s|pay on mismatch' % fn, pay_on_mismatch, 'on ptr != confirm the debt on ptr is paid back (pay(ptr))')
    col.floor('PUBLISH-CONFIRM', 'fast-path bodies', n, 1)
    # universally: a protection that *borrows* (debt = Some) is built nowhere else. A body that publishes a debt but never reads
    # the cell (a `Clone for Guard` "confirmed" against the first guard's debt slot) has nothing to confirm against: an unpaid
    # debt only says the writer has not reached that slot yet, not that the pointer is still stored.
    m = 0
    for b in fx.lib.bodies:
        if b.fname == 'arc_swap::strategy::hybrid::HybridProtection::new':
            continue
        for (nbb, pop, st, dop) in _prot_constructions(b):
            if st == 'None':
                continue
            m += 1
            pubs = [(bb, t, cb) for bb, t, cb in cx.local_calls(b) if (cx.publishes_fast_debt(cb.key) or cx.publishes_intent(cb.key)) and not b.is_cleanup(bb)]
            cell = [s for s in cx.summ.sites_by_body.get(b.key, ()) if s.cls == 'cell' and s.op == 'load']
            col.add('PUBLISH-CONFIRM', '%s|borrowing protection only where the cell is re-read' % b.fname, bool(pubs) and bool(cell),
                    'a protection with debt = %s is built here; the body publishes a debt: %s, reads the cell: %s' % (st, bool(pubs), bool(cell)), b.loc(nbb))
    col.floor('PUBLISH-CONFIRM', 'borrowing constructions', m, 1)


def _try_through(t):
    # look through `?` (Try::branch) and Option/ControlFlow plumbing
    if U.callee_name(t) in ('branch', 'from_residual', 'deref'):
        return [0]
    return None


# --------------------------------------------------------------------------------------------

def rule_intent_first(fx, col):
    cx = O.ctx(fx)
    n = 0
    for b in fx.lib.bodies:
        opens = [(bb, t, cb) for bb, t, cb in cx.local_calls(b) if cx.publishes_intent(cb.key) and not cx.confirms_intent(cb.key) and not b.is_cleanup(bb)]
        closes = [(bb, t, cb) for bb, t, cb in cx.local_calls(b) if cx.confirms_intent(cb.key) and not cx.publishes_intent(cb.key) and not b.is_cleanup(bb)]
        if not opens or not closes:
            continue
        cell = [s for s in cx.summ.sites_by_body.get(b.key, ()) if s.cls == 'cell' and s.op == 'load']
        n += 1
        fn = b.fname
        (obb, ot, ocb), (cbb, ct, ccb) = opens[0], closes[0]
        col.add('INTENT-FIRST', '%s|one transaction' % fn, len(opens) == 1 and len(closes) == 1, '%d open / %d close calls' % (len(opens), len(closes)))
        between = [s for s in cell if b.pos_dominates(b.term_pos(obb), b.term_pos(s.bb)) and b.pos_dominates(b.term_pos(s.bb), b.term_pos(cbb)) and s.bb not in (obb, cbb)]
        early = [s for s in cell if not b.pos_dominates(b.term_pos(obb), b.term_pos(s.bb))]
        col.add('INTENT-FIRST', '%s|load after intent' % fn, len(between) == 1 and not early,
                'cell loads between publish and confirm: %s; loads not dominated by the publish: %s' % ([s.loc for s in between], [s.loc for s in early]), b.loc(obb))
        if len(between) != 1:
            continue
        L = between[0]
        # the address published is the address of the cell that is loaded
        addr_ok = False
        for a in ot['args']:
            r, f = b.ref_path(a)
            if (r, f) == (L.root, L.fields):
                addr_ok = True
        col.add('INTENT-FIRST', '%s|published address is the loaded cell' % fn, addr_ok, 'new_helping(storage as usize) and storage.load() use the same parameter')
        # confirm(gen, candidate)
        gen_ok = any(_call_bbs(b, a) == {obb} for a in ct['args'])
        cand_ok = any(_call_bbs(b, a) == {L.bb} for a in ct['args'])
        col.add('INTENT-FIRST', '%s|confirm arguments' % fn, gen_ok and cand_ok, 'generation from the opening call: %s; slot value is the loaded candidate: %s' % (gen_ok, cand_ok), b.loc(cbb))
        # outcomes
        res = ct['dest']['local']
        cons = _prot_constructions(b)
        ok_arm = err_arm = None
        for (nbb, pop, st, dop) in cons:
            disc = _result_arm(b, nbb, res)
            src = _call_bbs(b, pop)
            if disc == 'Ok':
                good = st == 'Some' and src == {L.bb} and dop is not None and cbb in _call_bbs(b, dop)
                ok_arm = good if ok_arm is None else (ok_arm and good)
                col.add('INTENT-FIRST', '%s|Ok arm protects the candidate' % fn, good, 'Ok(debt): protection(candidate, Some(debt)); pointer from %s' % sorted(b.loc(x) for x in src), b.loc(nbb))
            elif disc == 'Err':
                good = st == 'None' and src == {cbb}
                err_arm = good if err_arm is None else (err_arm and good)
                col.add('INTENT-FIRST', '%s|Err arm uses the hand-over' % fn, good, 'Err((debt, replacement)): owning protection(replacement); pointer from %s' % sorted(b.loc(x) for x in src), b.loc(nbb))
            else:
                col.fail('INTENT-FIRST', '%s|construction outside the outcome arms' % fn, 'protection constructed at a point not decided by the confirmation outcome', b.loc(nbb))
        col.add('INTENT-FIRST', '%s|both arms' % fn, ok_arm is not None and err_arm is not None, 'Ok arm found: %s, Err arm found: %s' % (ok_arm is not None, err_arm is not None))
        # candidate flows only into pay/dec on the Err arm
        for bb, t in b.calls(include_cleanup=False):
            if _result_arm(b, bb, res) == 'Err' and any(_call_bbs(b, a) == {L.bb} for a in t['args']):
                good = _is_pay(t) or _is_refcnt(t, 'dec') or (_is_refcnt(t, 'from_ptr') and ('call', bb) not in b.origins(0))
                col.add('INTENT-FIRST', '%s|candidate on Err arm -> %s' % (fn, U.callee_name(t)), good, 'the rejected candidate is only paid back / released', b.loc(bb))
    col.floor('INTENT-FIRST', 'fallback bodies', n, 1)
    _confirm_shape(fx, col, cx)


def _result_arm(b, bb, res_local):
    """'Ok' / 'Err' if block bb executes only on that variant of the Result in res_local"""
    for f in U.dominating_facts(b, bb):
        if f[0] == 'variant' and (f[1] == res_local or (b.origins(f[1]) == b.origins(res_local) and b.origins(res_local))):
            return 'Ok' if f[2] == 0 else 'Err' if f[2] == 1 else None
    return None


def _confirm_shape(fx, col, cx):
    n = 0
    for b in fx.lib.bodies:
        sw = [s for s in cx.summ.sites_by_body.get(b.key, ()) if s.cls == 'control' and s.op == 'swap' and U.int_of(b, s.arg(1)) == cx.IDLE]
        if not sw:
            continue
        n += 1
        S = sw[0]
        fn = b.fname
        # the debt goes into the helping slot BEFORE the transaction is closed: a writer that then reads IDLE finds it
        slot_w = [s for s in cx.summ.sites_by_body.get(b.key, ()) if s.cls == 'debt' and s.op in ('swap', 'store', 'compare_exchange')]
        ok = bool(slot_w) and all(b.pos_dominates(b.term_pos(s.bb), b.term_pos(S.bb)) and s.bb != S.bb for s in slot_w)
        col.add('INTENT-FIRST', '%s|slot filled before control goes idle' % fn, ok,
                'the candidate is written into the helping slot at %s, before control is swapped to IDLE at %s' % ([s.loc for s in slot_w], S.loc), S.loc)
        same = bool(slot_w) and all(s.root == S.root for s in slot_w)
        col.add('INTENT-FIRST', '%s|slot of the same helping record' % fn, same, 'slot and control belong to the same helping::Slots')
        # Ok is returned only when swapped-out control == gen parameter
        for bb in range(b.n):
            if b.is_cleanup(bb):
                continue
            for i, st in enumerate(b.stmts(bb)):
                if st['k'] == 'assign' and st['dest']['local'] == 0 and st['rv']['k'] == 'aggregate' and st['rv'].get('adt') == 'core::result::Result':
                    var = st['rv']['variant']
                    g = [(truth, d) for (sbb, truth, d) in _switch_guard(b, bb) if d[0] == 'rv' and d[3]['k'] == 'binop' and d[3]['op'] in ('Eq', 'Ne')]
                    ok = False
                    for truth, d in g:
                        eq = (d[3]['op'] == 'Eq') == truth
                        ls, rs = b.origins(d[3]['l']), b.origins(d[3]['r'])
                        pair = (('call', S.bb) in ls and all(o[0] == 'arg' for o in rs)) or (('call', S.bb) in rs and all(o[0] == 'arg' for o in ls))
                        if pair and ((var == 'Ok') == eq):
                            ok = True
                    col.add('INTENT-FIRST', '%s|%s decided by control == gen' % (fn, var), ok,
                            '%s is returned on the %s outcome of comparing the swapped-out control with the generation passed in' % (var, 'equal' if var == 'Ok' else 'unequal'), b.loc(bb, i))
                    if var == 'Err':
                        src = b.origins(st['rv']['fields'][0], binops=True)
                        loads = [o for o in src if o[0] == 'call' and U.is_atomic_callee(b.term(o[1])['callee'])]
                        good = bool(loads) and all(U.Site(b, o[1], b.term(o[1])).cls == 'handover' for o in loads)
                        col.add('INTENT-FIRST', '%s|Err payload is the envelope content' % fn, good, 'Err(replacement) carries the value loaded from the hand-over envelope', b.loc(bb, i))
    col.floor('INTENT-FIRST', 'confirm shapes', n, 1)


# --------------------------------------------------------------------------------------------

def rule_pay_before_release(fx, col):
    cx = O.ctx(fx)
    n = 0
    asp = lambda t: [0] if U.callee_name(t) in ('as_ptr', 'deref', 'borrow') else None
    for b in fx.lib.bodies:
        if O.in_rwlock_impl(b):
            continue
        takes = [s for s in cx.summ.sites_by_body.get(b.key, ()) if s.cls == 'cell' and s.op in ('swap', 'compare_exchange', 'compare_exchange_weak', 'get_mut')]
        if not takes:
            continue
        for s in takes:
            n += 1
            fn = b.fname
            waits = [(bb, t) for bb, t in b.calls(include_cleanup=False) if U.callee_name(t) == 'wait_for_readers' and b.dominates(s.bb, bb)]
            rels = [(bb, t) for bb, t in b.calls(include_cleanup=False) if (_is_refcnt(t, 'from_ptr', 'dec')) and b.dominates(s.bb, bb) and bb != s.bb]
            if s.op.startswith('compare_exchange'):
                # only the success path releases the old value
                rels = [(bb, t) for bb, t in rels if _on_cas_success(b, s, bb)]
                waits = [(bb, t) for bb, t in waits if _on_cas_success(b, s, bb)]
            col.add('PAY-BEFORE-RELEASE', '%s|%s|wait_for_readers present' % (fn, s.op), len(waits) >= 1, 'wait_for_readers calls after taking the pointer out: %s' % [b.loc(x) for x, _ in waits], s.loc)
            for (rbb, rt) in rels:
                rsrc = b.origins(rt['args'][0], through_calls=asp)
                ok = False
                why = 'no wait_for_readers on this pointer dominates the release'
                for (wbb, wt) in waits:
                    if not b.pos_dominates(b.term_pos(wbb), b.term_pos(rbb)) or wbb == rbb:
                        continue
                    wsrc = b.origins(wt['args'][1], through_calls=asp)
                    r1, f1 = b.ref_path(wt['args'][2])
                    same_cell = (r1 == s.root and [x['name'] for x in f1] == [x['name'] for x in s.fields])
                    if wsrc == rsrc and same_cell:
                        ok = True
                        why = 'dominated by wait_for_readers(%s) at %s on the same cell' % ('same pointer', b.loc(wbb))
                    elif wsrc != rsrc:
                        why = 'wait_for_readers is given a different pointer than the one released'
                    elif not same_cell:
                        why = 'wait_for_readers is given a different cell'
                col.add('PAY-BEFORE-RELEASE', '%s|%s|%s' % (fn, s.op, U.callee_name(rt)), ok, why, b.loc(rbb))
            col.add('PAY-BEFORE-RELEASE', '%s|%s|releases' % (fn, s.op), len(rels) >= 1, '%d release(s) of the old pointer after taking it out' % len(rels), s.loc)
    col.floor('PAY-BEFORE-RELEASE', 'take-out sites', n, 4)
    # Hybrid: wait_for_readers == pay_all(old, &storage)
    w = [b for b in fx.lib.bodies if b.fname == '<strategy::hybrid::HybridStrategy as strategy::sealed::InnerStrategy>::wait_for_readers']
    if col.anchor('PAY-BEFORE-RELEASE', 'Hybrid wait_for_readers', len(w) == 1):
        b = w[0]
        pa = [(bb, t) for bb, t in b.calls(include_cleanup=False) if U.callee_name(t) == 'pay_all']
        ok = len(pa) == 1
        if ok:
            t = pa[0][1]
            ok = b.origins(t['args'][0]) == {('arg', 2)} and b.origins(t['args'][1]) == {('arg', 3)}
        col.add('PAY-BEFORE-RELEASE', 'Hybrid wait_for_readers|pay_all(old, storage)', ok, 'the strategy pays all debts on exactly the pointer and cell it was given')


def _cas_outcome_facts(b, s, facts):
    """True (success) / False (failure) / None from a list of condition facts about CAS site s"""
    res = s.term['dest']['local']
    for f in facts:
        if f[0] == 'variant' and (f[1] == res or U.local_from_call(b, f[1], s.bb)) and not _is_wrapped(b, f[1], s):
            return f[2] == 0
        if f[0] == 'variant':
            # the Result looked at through `.ok()` (Some = success), `.err()` (Some = failure), `.map(..)` / `.map_err(..)` (same variant)
            src = b.origins(f[1])
            if len(src) == 1 and next(iter(src))[0] == 'call':
                wt = b.term(next(iter(src))[1])
                nm = U.callee_name(wt)
                if nm in ('ok', 'err', 'map', 'map_err') and 'result::Result' in wt['callee'].get('path', '') and wt['args'] \
                        and b.origins(wt['args'][0]) == {('call', s.bb)}:
                    if nm == 'ok':
                        return f[2] == 1
                    if nm == 'err':
                        return f[2] == 0
                    return f[2] == 0
        if f[0] == 'bool' and f[1] and f[1][0] == 'call' and U.callee_name(f[1][2]) in ('is_ok', 'is_err') and ('call', s.bb) in b.origins(f[1][2]['args'][0]):
            return f[2] == (U.callee_name(f[1][2]) == 'is_ok')
    return None


def _is_wrapped(b, local, s):
    # the local must be the Result itself (or a copy/reference of it), not a value derived through another call
    return any(o[0] == 'call' and o[1] != s.bb for o in b.origins(local))


def _on_cas_success(b, s, bb):
    """bb is reachable only through the success outcome of CAS site s"""
    return _cas_outcome_facts(b, s, U.dominating_facts(b, bb)) is True


# --------------------------------------------------------------------------------------------

def _debt_storage(lib, adt_key, seen=()):
    """number of Debt values stored inline in an ADT (arrays multiply)"""
    if adt_key == 'arc_swap::debt::Debt':
        return 1
    a = lib.adts.get(adt_key)
    if a is None or adt_key in seen:
        return 0
    n = 0
    for v in a['variants']:
        for f in v['fields']:
            if f.get('array_adt') and f.get('array_len') is not None and f['ty'].startswith('['):
                n += f['array_len'] * _debt_storage(lib, f['array_adt'], seen + (adt_key,))
            elif f.get('direct_adt'):
                n += _debt_storage(lib, f['direct_adt'], seen + (adt_key,))
    return n


def rule_cover_all(fx, col):
    cx = O.ctx(fx)
    lib = fx.lib
    total = _debt_storage(lib, 'arc_swap::debt::list::Node')
    col.add('COVER-ALL', 'Node|debt storage', total == (cx.SLOT_CNT or 0) + 1 and total > 1, 'a Node stores %d debts (fast %s + 1 helping)' % (total, cx.SLOT_CNT))
    # accessors
    acc = {}
    for name in ('fast_slots', 'helping_slot'):
        bs = [b for b in lib.bodies if b.fname == 'arc_swap::debt::list::Node::' + name]
        if col.anchor('COVER-ALL', 'Node::' + name, len(bs) == 1):
            acc[name] = bs[0]
    if 'fast_slots' in acc:
        ok, why = _whole_array_iter(lib, acc['fast_slots'], depth=0)
        col.add('COVER-ALL', 'Node::fast_slots|whole array', ok, why)
    if 'helping_slot' in acc:
        ok, why = _field_ref_chain(lib, acc['helping_slot'], ('arc_swap::debt::helping::Slots', 'slot'))
        col.add('COVER-ALL', 'Node::helping_slot|the helping slot', ok, why)
    # the pay walk: bodies that call Debt::pay inside a loop
    walkers = []
    for b in lib.bodies:
        for bb, t in b.calls(include_cleanup=False):
            if _is_pay(t) and any(bb in bl for h, bl, tl in b.loops()):
                walkers.append((b, bb, t))
    # internal iteration: the pay call sits in a closure handed to Iterator::for_each
    for b in lib.bodies:
        for bb, t in b.calls(include_cleanup=False):
            if U.callee_name(t) == 'for_each' and (t['callee'].get('trait_pretty') or '').endswith('iter::Iterator') and len(t['args']) == 2:
                d = U.def_rvalue(b, t['args'][1])
                cb = lib.by_key.get(d[3].get('closure')) if d and d[0] == 'rv' and d[3]['k'] == 'aggregate' else None
                if cb is not None and any(_is_pay(tt) for _, tt in cb.calls(include_cleanup=False)):
                    _cover_all_for_each(fx, col, cx, b, bb, t, cb)
                    walkers.append(None)
    col.floor('COVER-ALL', 'pay walks', len(walkers), 1)
    thr = lambda t: list(range(len(t['args']))) if U.callee_name(t) in ('chain', 'once', 'into_iter') else None
    # a split walk: slots paid directly (outside any loop) in a body that also walks — `pay(node.helping_slot())` after the loop
    direct = {}
    for w in walkers:
        if w is None:
            continue
        b = w[0]
        for bb, t in b.calls(include_cleanup=False):
            if _is_pay(t) and not any(bb in bl for h, bl, tl in b.loops()):
                srcs = {U.callee_name(b.term(o[1])) for o in b.origins(t['args'][0], through_calls=thr) if o[0] == 'call'}
                if srcs and srcs <= {'fast_slots', 'helping_slot'}:
                    direct.setdefault(b.key, []).append((bb, t, srcs))
    covered = {}
    for w in walkers:
        if w is None:
            continue
        (b, pbb, pt) = w
        fn = b.fname
        (h, blocks, tails) = [l for l in b.loops() if pbb in l[1]][0]
        nxt = [(bb, t) for bb, t in P._loop_calls(b, blocks) if U.callee_name(t) == 'next' and (t['callee'].get('trait_pretty') or '').endswith('iter::Iterator')]
        if not col.anchor('COVER-ALL', '%s|iterator' % fn, len(nxt) == 1):
            continue
        nbb, nt = nxt[0]
        ity = nt['callee'].get('self_ty', '')
        src = b.origins(nt['args'][0], through_calls=thr)
        names = {U.callee_name(b.term(o[1])) for o in src if o[0] == 'call'}
        split = direct.get(b.key, [])
        whole = P._finite_iter_ty(ity) and 'Chain<' in ity and 'slice::Iter<' in ity and 'Once<' in ity
        part = P._finite_iter_ty(ity) and bool(split) and ('slice::Iter<' in ity or 'Once<' in ity)
        col.add('COVER-ALL', '%s|iterator type' % fn, whole or part,
                'the walk consumes %s (only slice::Iter / Once / Chain admitted: no Take/Skip/StepBy/Filter)%s' % (ity, '; the remaining slot is paid directly' if part and not whole else ''), b.loc(nbb))
        node_op = _walk_node_operand(b, src)
        for dbb, dt, srcs in split:
            # the direct pay is unconditional once the walk is over (guards: only the walk's own loop exit), on the same node
            guards = [(sbb, val) for (sbb, succ, val) in U.dominating_branches(b, dbb, unwind=False)]
            only_exit = all(_is_discr_of(b, sbb, nt['dest']['local']) for sbb, _ in guards)
            acc_t = [b.term(o[1]) for o in b.origins(dt['args'][0], through_calls=thr) if o[0] == 'call' and U.callee_name(b.term(o[1])) in ('fast_slots', 'helping_slot')]
            same = node_op is not None and all(b.origins(a['args'][0]) == b.origins(node_op) for a in acc_t)
            col.add('COVER-ALL', '%s|direct pay of %s' % (fn, '/'.join(sorted(srcs))), only_exit and same,
                    'paid unconditionally (guards: %d, all the walk\'s own exit) on the node being walked: %s' % (len(guards), same), b.loc(dbb))
            if only_exit and same:
                names |= srcs
        covered.setdefault(b.key, set()).update(names)
        names = covered[b.key]
        col.add('COVER-ALL', '%s|both accessors' % fn, {'fast_slots', 'helping_slot'} <= names, 'slots paid come from %s' % sorted(names))
        # the slot paid is the item yielded
        item_ok = nbb in _call_bbs(b, pt['args'][0])
        col.add('COVER-ALL', '%s|pays the yielded slot' % fn, item_ok, 'pay() is invoked on the item returned by next()')
        # pay executed for every item: inside the loop it is guarded only by next() == Some
        inner = [(sbb, val) for (sbb, succ, val) in U.dominating_branches(b, pbb, unwind=False) if sbb in blocks]
        only_next = all(_is_discr_of(b, sbb, nt['dest']['local']) for sbb, _ in inner) and len(inner) >= 1
        col.add('COVER-ALL', '%s|every item paid' % fn, only_next, 'inside the loop the pay call depends only on the iterator yielding an item (%d guard(s))' % len(inner), b.loc(pbb))
        # the closure never stops the traversal early
        rets = []
        for bb in range(b.n):
            if b.is_cleanup(bb):
                continue
            for i, st in enumerate(b.stmts(bb)):
                if st['k'] == 'assign' and st['dest']['local'] == 0 and not st['dest']['proj']:
                    rv = st['rv']
                    rets.append(rv['k'] == 'aggregate' and rv.get('adt') == 'core::option::Option' and rv['variant'] == 'None')
        ret_ty = b.local_ty(0)
        if ret_ty.startswith('std::option::Option'):
            col.add('COVER-ALL', '%s|never stops early' % fn, bool(rets) and all(rets), 'the per-node closure returns None on every path (%d return value assignment(s))' % len(rets))
        # help before pay, unconditionally, inside the writer reservation
        helps = [(bb, t, cb) for bb, t, cb in cx.local_calls(b) if not b.is_cleanup(bb) and
                 cx.summ.has_site(cb.key, lambda s: s.cls == 'control' and s.op.startswith('compare_exchange'))]
        ok = len(helps) == 1
        why = '%d helper call(s)' % len(helps)
        if ok:
            hbb = helps[0][0]
            dom = b.dominates(hbb, h) and hbb not in blocks
            uncond = not U.dominating_branches(b, hbb, unwind=False)
            ok = dom and uncond
            why = 'help() at %s dominates the slot walk: %s; unconditional: %s' % (b.loc(hbb), dom, uncond)
            # helper is given the node being walked
            node_arg = any(b.origins(a) == b.origins(x) for a in helps[0][1]['args'] for x in [_walk_node_operand(b, src)] if x is not None)
        col.add('COVER-ALL', '%s|help before pay' % fn, ok, why)
        _raii_span(fx, col, cx, b, blocks, helps, pbb)
    _traverse_shape(fx, col)


def _cover_all_for_each(fx, col, cx, b, fbb, ft, cb):
    """COVER-ALL for `all_slots.for_each(|slot| ..pay..)`: b = body holding the for_each call, cb = the closure"""
    fn = b.fname
    ity = ft['callee'].get('self_ty', '')
    col.add('COVER-ALL', '%s|iterator type' % fn, P._finite_iter_ty(ity) and 'Chain<' in ity and 'slice::Iter<' in ity and 'Once<' in ity,
            'the walk consumes %s through for_each (only slice::Iter / Once / Chain admitted)' % ity, b.loc(fbb))
    thr = lambda t: list(range(len(t['args']))) if U.callee_name(t) in ('chain', 'once', 'into_iter') else None
    src = b.origins(ft['args'][0], through_calls=thr)
    names = {U.callee_name(b.term(o[1])) for o in src if o[0] == 'call'}
    col.add('COVER-ALL', '%s|both accessors' % fn, {'fast_slots', 'helping_slot'} <= names, 'iterator built from %s' % sorted(names))
    pays = [(bb, t) for bb, t in cb.calls(include_cleanup=False) if _is_pay(t)]
    pbb, pt = pays[0]
    col.add('COVER-ALL', '%s|pays the yielded slot' % fn, len(pays) == 1 and cb.origins(pt['args'][0]) == {('arg', 2)}, 'pay() is invoked on the item handed to the closure')
    col.add('COVER-ALL', '%s|every item paid' % fn, not U.dominating_branches(cb, pbb, unwind=False) and not any(pbb in bl for h, bl, tl in cb.loops()),
            'the pay call in the closure is unconditional', cb.loc(pbb))
    rets = []
    for bb in range(b.n):
        if b.is_cleanup(bb):
            continue
        for st in b.stmts(bb):
            if st['k'] == 'assign' and st['dest']['local'] == 0 and not st['dest']['proj']:
                rv = st['rv']
                rets.append(rv['k'] == 'aggregate' and rv.get('adt') == 'core::option::Option' and rv['variant'] == 'None')
    if b.local_ty(0).startswith('std::option::Option'):
        col.add('COVER-ALL', '%s|never stops early' % fn, bool(rets) and all(rets), 'the per-node closure returns None on every path')
    helps = [(bb, t, cb2) for bb, t, cb2 in cx.local_calls(b) if not b.is_cleanup(bb) and
             cx.summ.has_site(cb2.key, lambda s: s.cls == 'control' and s.op.startswith('compare_exchange'))]
    ok = len(helps) == 1
    why = '%d helper call(s)' % len(helps)
    if ok:
        hbb = helps[0][0]
        dom = b.dominates(hbb, fbb) and hbb != fbb
        uncond = not U.dominating_branches(b, hbb, unwind=False)
        ok = dom and uncond
        why = 'help() at %s dominates the slot walk: %s; unconditional: %s' % (b.loc(hbb), dom, uncond)
    col.add('COVER-ALL', '%s|help before pay' % fn, ok, why)
    _raii_span(fx, col, cx, b, set(), helps, fbb)


def _walk_node_operand(b, src):
    for o in src:
        if o[0] == 'call' and U.callee_name(b.term(o[1])) == 'fast_slots':
            return b.term(o[1])['args'][0]
    return None


def _is_discr_of(b, sbb, local):
    d = U.def_rvalue(b, b.term(sbb)['discr'])
    return bool(d and d[0] == 'rv' and d[3]['k'] == 'discr' and d[3]['place']['local'] == local)


def _whole_array_iter(lib, b, depth):
    """body = projection(s) of self + one call to another such accessor or to <[T]>::iter on the
    unsized whole array; no Index / Subslice / Range"""
    if depth > 4:
        return False, 'accessor chain too deep'
    calls = [(bb, t) for bb, t in b.calls(include_cleanup=False)]
    if len(calls) != 1:
        return False, '%s makes %d calls (expected 1)' % (b.fname, len(calls))
    bb, t = calls[0]
    for x in range(b.n):
        for st in b.stmts(x):
            if st['k'] == 'assign':
                for pl in O._places_of_rv(st['rv']):
                    if any(e['k'] in ('index', 'constindex', 'subslice') for e in pl['proj']):
                        return False, '%s indexes / slices the array' % b.fname
    r, f = b.ref_path(t['args'][0])
    if r != ('arg', 1):
        return False, '%s does not pass a projection of self' % b.fname
    nm = U.callee_name(t)
    if nm == 'iter' and 'slice' in t['callee'].get('path', ''):
        ff = [x for x in f if x['k'] == 'field']
        ok = bool(ff) and ff[-1]['adt'] == 'arc_swap::debt::fast::Slots' and ff[-1]['name'] == '0'
        return ok, '%s: <[Debt]>::iter over the whole array fast::Slots.0' % b.fname if ok else '%s iterates %s' % (b.fname, [(x['adt'], x['name']) for x in f])
    ck = t['callee'].get('resolved') or t['callee'].get('key')
    cb = lib.by_key.get(ck)
    if cb is None:
        return False, '%s calls %s' % (b.fname, t['callee'].get('pretty'))
    return _whole_array_iter(lib, cb, depth + 1)


def _field_ref_chain(lib, b, last_field, depth=0):
    calls = [(bb, t) for bb, t in b.calls(include_cleanup=False)]
    if not calls:
        # returns &self.<field>
        for x in range(b.n):
            for st in b.stmts(x):
                if st['k'] == 'assign' and st['dest']['local'] == 0 and st['rv']['k'] == 'ref':
                    r, f = b._place_path(st['rv']['place'], 0)
                    ff = [y for y in f if y['k'] == 'field']
                    if ff and (ff[-1]['adt'], ff[-1]['name']) == last_field and r == ('arg', 1):
                        return True, '%s returns &self.%s' % (b.fname, last_field[1])
                if st['k'] == 'assign' and st['dest']['local'] == 0 and st['rv']['k'] == 'use':
                    r, f = b.ref_path(st['rv']['op'])
                    ff = [y for y in f if y['k'] == 'field']
                    if ff and (ff[-1]['adt'], ff[-1]['name']) == last_field and r == ('arg', 1):
                        return True, '%s returns &self.%s' % (b.fname, last_field[1])
        return False, '%s does not return the expected field' % b.fname
    if len(calls) != 1 or depth > 3:
        return False, '%s makes %d calls' % (b.fname, len(calls))
    t = calls[0][1]
    cb = lib.by_key.get(t['callee'].get('resolved') or t['callee'].get('key'))
    if cb is None:
        return False, '%s calls %s' % (b.fname, t['callee'].get('pretty'))
    return _field_ref_chain(lib, cb, last_field, depth + 1)


def _raii_span(fx, col, cx, b, blocks, helps, pbb):
    fn = b.fname
    res = [(bb, t) for bb, t in b.calls(include_cleanup=False) if (b.local_ty(t['dest']['local']).startswith('debt::list::NodeReservation') and not t['dest']['proj'])]
    if not col.anchor('RAII-SPAN', '%s|reservation' % fn, len(res) == 1, 'calls returning a NodeReservation: %d' % len(res)):
        return
    rbb, rt = res[0]
    rl = rt['dest']['local']
    spans = [x for x, _, _ in helps] + [pbb]
    dom = all(b.dominates(rbb, x) and x != rbb for x in spans)
    col.add('RAII-SPAN', '%s|reserved before help and pay' % fn, dom, 'reserve_writer() at %s dominates the helper call and every pay' % b.loc(rbb), b.loc(rbb))
    drops = [bb for bb, t in b.drops() if t['place']['local'] == rl and not t['place']['proj']]
    normal = [d for d in drops if not b.is_cleanup(d)]
    post = bool(normal) and all(any(b.postdominates(d, x) for d in normal) for x in spans)
    col.add('RAII-SPAN', '%s|released after the visit' % fn, post, 'the reservation is dropped at %s, after help and all pays on every normal path' % [b.loc(d) for d in normal])
    # unwind: every call after the reservation that can unwind reaches a cleanup drop of the reservation
    bad = []
    for x in range(b.n):
        if b.is_cleanup(x) or not b.dominates(rbb, x) or x == rbb:
            continue
        t = b.term(x)
        if t['k'] in ('call', 'drop', 'assert'):
            if t['k'] == 'drop' and t['place']['local'] == rl:
                continue
            u = t.get('unwind')
            # is the reservation still alive here? (not yet dropped on the normal path)
            alive = not any(b.dominates(d, x) and d != x for d in normal)
            if not alive:
                continue
            if isinstance(u, int):
                reach = b.reach_from(u, unwind=True)
                if not any(d in reach for d in drops if b.is_cleanup(d)):
                    bad.append(b.loc(x))
            elif u == 'continue':
                bad.append(b.loc(x))
    col.add('RAII-SPAN', '%s|released on unwind' % fn, not bad, 'unwinding calls that skip the reservation drop: %s' % bad)
    # the reservation is a +1/-1 bracket on the same counter
    rw = [x for x in fx.lib.bodies if x.fname == 'arc_swap::debt::list::Node::reserve_writer']
    dr = [x for x in fx.lib.bodies if x.fname == '<debt::list::NodeReservation as std::ops::Drop>::drop']
    if col.anchor('RAII-SPAN', 'reserve_writer/NodeReservation::drop', len(rw) == 1 and len(dr) == 1):
        a = [s for s in cx.summ.sites_by_body.get(rw[0].key, ()) if s.cls == 'active_writers']
        d = [s for s in cx.summ.sites_by_body.get(dr[0].key, ()) if s.cls == 'active_writers']
        ok = len(a) == 1 and len(d) == 1 and a[0].op == 'fetch_add' and d[0].op == 'fetch_sub' and U.int_of(rw[0], a[0].arg(1)) == 1 and U.int_of(dr[0], d[0].arg(1)) == 1
        col.add('RAII-SPAN', 'reservation|+1/-1 bracket', ok, 'reserve_writer = fetch_add(1), NodeReservation::drop = fetch_sub(1) on Node.active_writers')


def _traverse_shape(fx, col):
    bs = [b for b in fx.lib.bodies if b.fname == 'arc_swap::debt::list::Node::traverse']
    if not col.anchor('COVER-ALL', 'Node::traverse', len(bs) == 1):
        return
    b = bs[0]
    loops = b.loops()
    if not col.anchor('COVER-ALL', 'Node::traverse|loop', len(loops) == 1):
        return
    h, blocks, tails = loops[0]
    exits = []
    for x in sorted(blocks):
        for s in b.term_succs(x, unwind=False):
            if s not in blocks and b.term(s)['k'] != 'unreachable':
                exits.append((x, s))
    kinds = set()
    for (x, s2) in exits:
        fs = U.edge_facts(b, x, s2) if b.term(x)['k'] == 'switch' else []
        kind = 'other:%s' % b.term(x)['k']
        for f in fs:
            if f[0] == 'variant':
                ty = b.local_ty(f[1])
                from_closure = any(o[0] == 'call' and U.callee_name(b.term(o[1])) in ('call_mut', 'call', 'call_once') for o in b.origins(f[1]))
                if from_closure and f[2] == 1:
                    kind = 'closure-said-stop'
                elif 'Option<&' in ty and 'Node' in ty and f[2] == 0 and not from_closure:
                    kind = 'end-of-list'
                else:
                    kind = 'other-variant:%s=%s' % (ty, f[2])
            elif f[0] == 'bool' and f[1] and f[1][0] == 'call' and U.callee_name(f[1][2]) in ('is_some', 'is_none'):
                src = b.origins(f[1][2]['args'][0])
                fcall = any(o[0] == 'call' and U.callee_name(b.term(o[1])) in ('call_mut', 'call', 'call_once') for o in src)
                said_some = f[2] == (U.callee_name(f[1][2]) == 'is_some')
                if fcall and said_some:
                    kind = 'closure-said-stop'
                elif not fcall and not said_some:
                    kind = 'end-of-list'
                else:
                    kind = 'other-test'
        kinds.add(kind)
    kinds = sorted(kinds)
    col.add('COVER-ALL', 'Node::traverse|exits', sorted(kinds) == ['closure-said-stop', 'end-of-list'], 'the node walk leaves its loop only by: %s' % sorted(kinds))
    # every node is handed to the closure: the closure call is guarded only by current == Some
    calls = [(bb, t) for bb, t in P._loop_calls(b, blocks) if U.callee_name(t) in ('call_mut', 'call', 'call_once')]
    ok = len(calls) == 1
    if ok:
        inner = [(sbb, val) for (sbb, succ, val) in U.dominating_branches(b, calls[0][0], unwind=False) if sbb in blocks]
        ok = len(inner) == 1
    col.add('COVER-ALL', 'Node::traverse|every node visited', ok, 'the closure is called for every node reached')


# --------------------------------------------------------------------------------------------

def rule_claim_empty(fx, col):
    cx = O.ctx(fx)
    n = 0
    for s in cx.sites:
        if s.cls != 'debt' or s.op != 'swap' or s.sub != 'fast':
            continue
        n += 1
        b = s.body
        fn = b.fname
        conds = O._eq_guards(cx, b, s.bb)
        guarded = ('debt', cx.NONE) in conds
        # same slot: the guarding load and the swap use the same place path
        same = False
        for (sbb, succ, val) in U.dominating_branches(b, s.bb, unwind=False):
            d = U.def_rvalue(b, b.term(sbb)['discr'])
            if d and d[0] == 'rv' and d[3]['k'] == 'binop':
                for side in ('l', 'r'):
                    for o in b.origins(d[3][side]):
                        if o[0] == 'call' and U.is_atomic_callee(b.term(o[1])['callee']):
                            ld = U.Site(b, o[1], b.term(o[1]))
                            if ld.cls == 'debt' and _same_place(b, ld, s):
                                same = True
        col.add('CLAIM-EMPTY', '%s|claim guarded by emptiness' % fn, guarded and same,
                'the publishing swap is control dependent on load(slot) == NONE (%s) of the same slot (%s)' % (guarded, same), s.loc)
        # the reference handed out is the slot that was written
        ret_ok = False
        for bb in range(b.n):
            if not b.dominates(s.bb, bb) or b.is_cleanup(bb):
                continue
            for i, st in enumerate(b.stmts(bb)):
                if st['k'] == 'assign' and st['dest']['local'] == 0 and st['rv']['k'] == 'aggregate' and st['rv'].get('variant') == 'Some':
                    r, f = b.ref_path(st['rv']['fields'][0])
                    if (r, _norm_fields(b, f)) == (s.root, _norm_fields(b, s.fields[:-1])):
                        ret_ok = True
        col.add('CLAIM-EMPTY', '%s|returns the claimed slot' % fn, ret_ok, 'the &Debt returned is the slot that was tested and written (same base, same index)')
    col.floor('CLAIM-EMPTY', 'fast claims', n, 1)
    # only LocalNode methods reach a publishing write of a debt slot
    pubs = {s.body.key for s in cx.sites if s.cls == 'debt' and s.op in ('swap', 'store')}
    for b in fx.lib.bodies:
        for bb, t, cb in cx.local_calls(b):
            if cb.key in pubs:
                ok = b.fname.startswith('arc_swap::debt::list::LocalNode::')
                col.add('CLAIM-EMPTY', '%s|caller of %s' % (b.fname, cb.fname.split('::')[-2] + '::' + cb.fname.split('::')[-1]), ok,
                        'debt slots are filled only through the thread-local owner (LocalNode)', b.loc(bb))


def _norm_fields(b, fields):
    out = []
    for f in fields:
        if f['k'] == 'index' and f.get('local') is not None:
            # index locals that are copies of each other are the same index
            out.append(('index', frozenset(b.origins(f['local']))))
        else:
            out.append((f.get('adt'), f.get('name')))
    return out


def _same_place(b, s1, s2):
    return s1.root == s2.root and _norm_fields(b, s1.fields) == _norm_fields(b, s2.fields)


# --------------------------------------------------------------------------------------------

def rule_pay_used(fx, col):
    n = 0
    for b in fx.lib.bodies:
        k = 0
        for bb, t in b.calls(include_cleanup=False):
            if not _is_pay(t):
                continue
            n += 1
            d = t['dest']['local']
            used = False
            for x in range(b.n):
                tt = b.term(x)
                if tt['k'] == 'switch':
                    if ('call', bb) in b.origins(tt['discr']):
                        used = True
            col.add('PAY-USED', '%s|pay#%d' % (b.fname, k), used, 'the outcome of pay() decides a branch (a discarded outcome loses or duplicates a count)', b.loc(bb))
            k += 1
    col.floor('PAY-USED', 'pay call sites', n, 5)


# --------------------------------------------------------------------------------------------

def _pays_own_debt(fx):
    """HybridProtection methods taking self whose body pays self.debt on the Some arm"""
    out = {}
    for b in fx.lib.bodies:
        if b.j.get('impl_self_adt') != PROT:
            continue
        takes = [(bb, t) for bb, t in b.calls(include_cleanup=False) if U.callee_name(t) == 'take' and 'option::Option' in t['callee'].get('path', '')]
        if not takes:
            continue
        tbb, tt = takes[0]
        r, f = b.ref_path(tt['args'][0])
        ff = [x for x in f if x['k'] == 'field']
        if not (ff and ff[-1]['adt'] == PROT and ff[-1]['name'] == 'debt'):
            continue
        res = tt['dest']['local']
        # Some arm: every path to return passes a pay on the taken debt
        pays = {bb for bb, t in b.calls(include_cleanup=False) if _is_pay(t) and tbb in _call_bbs(b, t['args'][0])}
        some_succ = None
        for x in range(b.n):
            t = b.term(x)
            if t['k'] == 'switch' and _is_discr_of(b, x, res):
                for v, tb in t['targets']:
                    if v == 1:
                        some_succ = tb
        ok = False
        if some_succ is not None and pays:
            reach = b.reach_from(some_succ, unwind=False, avoid=pays)
            ok = not any(b.term(x)['k'] == 'return' for x in reach)
            # and the debt is looked at on every path: no early return (e.g. "a NULL has nothing to release") skips the take
            skip = b.reach_from(0, unwind=False, avoid={tbb})
            ok = ok and not any(b.term(x)['k'] == 'return' for x in skip)
        out[b.key] = (ok, b)
    return out


def rule_ptr_exclusive(fx, col):
    """The pointer inside a protection is a *borrowed bit-copy* of the stored one while the debt is outstanding. Handing out
    `&mut` to it (a `DerefMut for Guard`) lets safe code drop or replace a reference the guard never owned. A mutable borrow
    of HybridProtection.ptr is admitted only after `self.debt.take()` on every path to it (the protection owns its count from
    there on: Drop's final release, or an upgrade-then-borrow)."""
    n = 0
    for b in fx.lib.bodies:
        takes = []
        for bb, t in b.calls(include_cleanup=False):
            if U.callee_name(t) == 'take' and 'option::Option' in t['callee'].get('path', ''):
                r, f = b.ref_path(t['args'][0])
                ff = [x for x in f if x['k'] == 'field']
                if ff and ff[-1]['adt'] == PROT and ff[-1]['name'] == 'debt':
                    takes.append(bb)
        for bb in range(b.n):
            if b.is_cleanup(bb):
                continue
            for i, st in enumerate(b.stmts(bb)):
                if st['k'] != 'assign' or st['rv']['k'] not in ('ref', 'rawptr'):
                    continue
                pl = st['rv']['place']
                if not any(e['k'] == 'field' and e.get('adt') == PROT and e.get('name') == 'ptr' for e in pl['proj']):
                    continue
                mut = st['rv'].get('mut') is True or st['rv'].get('kind') == 'Mut'
                n += 1
                if not mut:
                    continue
                ok = any(b.dominates(tb, bb) and tb != bb for tb in takes)
                col.add('PTR-EXCLUSIVE', '%s|&mut ptr only once the debt is taken' % b.fname, ok,
                        'mutable borrow of the protected pointer; self.debt.take() dominates it: %s' % ok, b.loc(bb, i))
    col.floor('PTR-EXCLUSIVE', 'borrows of HybridProtection.ptr', n, 4)


def rule_slot_closed(fx, col):
    cx = O.ctx(fx)
    own = _pays_own_debt(fx)
    for k, (ok, b) in sorted(own.items()):
        col.add('SLOT-CLOSED', '%s|pays its debt' % b.fname, ok, 'self.debt.take() on every path, and after Some(d) every path to return passes d.pay(..)')
    col.floor('SLOT-CLOSED', 'consumers of a protection that pay its debt', sum(1 for k in own if own[k][0]), 2)
    n = 0
    for b in fx.lib.bodies:
        closes = [(bb, t, cb) for bb, t, cb in cx.local_calls(b) if cx.confirms_intent(cb.key) and not cx.publishes_intent(cb.key) and not b.is_cleanup(bb)]
        opens = [(bb, t, cb) for bb, t, cb in cx.local_calls(b) if cx.publishes_intent(cb.key) and not cx.confirms_intent(cb.key) and not b.is_cleanup(bb)]
        pubs = [(bb, t, cb) for bb, t, cb in cx.local_calls(b) if cx.publishes_fast_debt(cb.key) and not b.is_cleanup(bb)
                and 'debt::Debt' in b.local_ty(t['dest']['local'])]
        if closes and opens:
            n += 1
            cbb, ct, _ = closes[0]
            _closed_after(fx, col, cx, own, b, cbb, 'helping', require_none=True)
        elif pubs and any(s.cls == 'cell' for s in cx.summ.sites_by_body.get(b.key, ())):
            n += 1
            pbb, ptm, _ = pubs[0]
            _closed_after(fx, col, cx, own, b, pbb, 'fast', require_none=False)
    col.floor('SLOT-CLOSED', 'slot-opening bodies', n, 2)


def _closed_after(fx, col, cx, own, b, cbb, kind, require_none):
    fn = b.fname
    closers = set()
    for bb, t in b.calls(include_cleanup=False):
        if _is_pay(t) and cbb in _call_bbs(b, t['args'][0], through=_try_through):
            closers.add(bb)
        ck = t['callee'].get('resolved') or t['callee'].get('key')
        if ck in own and own[ck][0]:
            # consumes a protection built from this debt
            for (nbb, pop, st, dop) in _prot_constructions(b):
                if st == 'Some' and dop is not None and cbb in _call_bbs(b, dop, through=_try_through) and nbb in _call_bbs(b, t['args'][0]):
                    closers.add(bb)
    movers = set()
    if not require_none:
        for (nbb, pop, st, dop) in _prot_constructions(b):
            if st == 'Some' and dop is not None and cbb in _call_bbs(b, dop, through=_try_through):
                movers.add(nbb)
    start = b.term(cbb)['target']
    reach = b.reach_from(start, unwind=False, avoid=closers | movers)
    leaks = [x for x in reach if b.term(x)['k'] == 'return']
    # the `?` early-exit when no slot was obtained holds no debt: exclude paths where the result is None
    if leaks and not require_none:
        leaks = [x for x in leaks if not _only_via_none(b, cbb, x, closers | movers)]
    col.add('SLOT-CLOSED', '%s|%s slot closed on every path' % (fn, kind), not leaks,
            'from the call that fills the slot (%s) every path to return %s; leaking returns: %s'
            % (b.loc(cbb), 'pays the debt back' if require_none else 'pays the debt back or moves it into the returned protection', [b.loc(x) for x in leaks]), b.loc(cbb))
    if require_none:
        # what is returned owns its count (debt None)
        bad = []
        for (nbb, pop, st, dop) in _prot_constructions(b):
            if st == 'Some':
                # must be consumed by a closer before return
                consumed = any(nbb in _call_bbs(b, b.term(x)['args'][0]) for x in closers if b.term(x)['args'])
                if not consumed:
                    bad.append(b.loc(nbb))
        col.add('SLOT-CLOSED', '%s|returns an owning protection' % fn, not bad, 'a protection borrowing the helping slot escapes at %s' % bad if bad else 'every protection that borrows the helping slot is converted (into_inner) before it is returned')


def _only_via_none(b, cbb, ret_bb, stops):
    """return block reached only through the `None` (no slot) outcome of the publish call"""
    res = b.term(cbb)['dest']['local']
    for x in range(b.n):
        t = b.term(x)
        if t['k'] != 'switch':
            continue
        d = U.def_rvalue(b, t['discr'])
        if d and d[0] == 'rv' and d[3]['k'] == 'discr':
            src = b.origins(d[3]['place']['local'], through_calls=_try_through)
            if ('call', cbb) in src:
                # ControlFlow::Continue = 0 (Some), Break = 1 (None)  /  Option: None = 0, Some = 1
                ty = b.local_ty(d[3]['place']['local'])
                some_val = 0 if 'ControlFlow' in ty else 1
                some_succ = [tb for v, tb in t['targets'] if v == some_val]
                if some_succ:
                    reach = b.reach_from(some_succ[0], unwind=False, avoid=stops)
                    return ret_bb not in reach
    return False


def rule_fast_window(fx, col):
    """USERCALL-STATE (a), fast path: between the fast-debt publish and the point where the debt is
    owned by a protection or paid back, nothing but the confirming load and branch plumbing runs."""
    from . import totality as T
    cx = O.ctx(fx)
    quiet = T.quiet_functions(fx)
    n = 0
    for b in fx.lib.bodies:
        pubs = [(bb, t, cb) for bb, t, cb in cx.local_calls(b) if cx.publishes_fast_debt(cb.key) and not b.is_cleanup(bb)
                and 'debt::Debt' in b.local_ty(t['dest']['local'])]
        if not pubs or not any(s.cls == 'cell' for s in cx.summ.sites_by_body.get(b.key, ())):
            continue
        n += 1
        pbb, pt, _ = pubs[0]
        closers = set()
        for bb, t in b.calls(include_cleanup=False):
            if _is_pay(t) and pbb in _call_bbs(b, t['args'][0], through=_try_through):
                closers.add(bb)
        for (nbb, pop, st, dop) in _prot_constructions(b):
            if st == 'Some' and dop is not None and pbb in _call_bbs(b, dop, through=_try_through):
                closers.add(nbb)
        region = b.reach_from(b.term(pbb)['target'], unwind=False, avoid=closers)
        bad = []
        for x in sorted(region):
            t = b.term(x)
            if t['k'] == 'call' and U.callee_name(t) in ('branch', 'from_residual'):
                continue
            w = T._quiet_term(fx, quiet, b, x)
            if w:
                bad.append(w)
        col.add('FAST-WINDOW', '%s|quiet between publish and ownership' % b.fname, not bad,
                '; '.join(bad) or 'from the debt publish (%s) until the debt is owned by a protection or paid back only atomics, casts and branches run (%d blocks)' % (b.loc(pbb), len(region)), b.loc(pbb))
    col.floor('FAST-WINDOW', 'fast-path windows', n, 1)


def rule_confirmed_origin(fx, col):
    """C03 / C12: a load returns a pointer that was confirmed to be in THIS cell while the reader's debt was visible
    (equal re-read), or a hand-over validated by the helper (ADDR-GUARD). The "debt already paid by someone else" arm of
    the fast path returns the published pointer WITHOUT such a confirmation: debts are keyed by the bare address, so the
    payer may have been a writer of another container whose value now lives at a recycled address."""
    cx = O.ctx(fx)
    n = 0
    for b in fx.lib.bodies:
        pubs = [(bb, t, cb) for bb, t, cb in cx.local_calls(b) if cx.publishes_fast_debt(cb.key) and not b.is_cleanup(bb)
                and 'debt::Debt' in b.local_ty(t['dest']['local'])]
        cell = [s for s in cx.summ.sites_by_body.get(b.key, ()) if s.cls == 'cell' and s.op == 'load']
        if not pubs or not cell:
            continue
        for (nbb, pop, st, dop) in _prot_constructions(b):
            n += 1
            if st == 'Some':
                col.ok('CONFIRMED-ORIGIN', '%s|borrowing protection' % b.fname, 'built on the equal outcome of the re-read (checked by PUBLISH-CONFIRM)', b.loc(nbb))
            else:
                confirmed = False
                for (sbb, truth, d) in _switch_guard(b, nbb):
                    if d[0] == 'rv' and d[3]['k'] == 'binop' and d[3]['op'] in ('Eq', 'Ne') and ((d[3]['op'] == 'Eq') == truth):
                        confirmed = True
                col.add('CONFIRMED-ORIGIN', '%s|owning protection for an unconfirmed pointer' % b.fname, confirmed,
                        'after ptr != confirm and a failed pay-back the published pointer is returned as the loaded value: whoever paid the debt '
                        'may be a writer of ANOTHER container holding a different value at the same (recycled) address', b.loc(nbb))
    col.floor('CONFIRMED-ORIGIN', 'fast-path constructions', n, 1)
    # second site of the same root cause: the helped reader of the fallback puts its (never confirmed) candidate into the
    # helping slot and, when the pay-back of that slot FAILS, releases "its" count with this container's type. The payer may
    # have been a writer of another container that holds a different value (of a different type) at the recycled address.
    m = 0
    for b in fx.lib.bodies:
        opens = [(bb, t, cb) for bb, t, cb in cx.local_calls(b) if cx.publishes_intent(cb.key) and not cx.confirms_intent(cb.key) and not b.is_cleanup(bb)]
        cell = [s_ for s_ in cx.summ.sites_by_body.get(b.key, ()) if s_.cls == 'cell' and s_.op == 'load']
        if not opens or not cell:
            continue
        for bb, t in b.calls(include_cleanup=False):
            if not ((t['callee'].get('trait') or '').endswith('ref_cnt::RefCnt') and U.callee_name(t) in ('dec', 'from_ptr')):
                continue  # (`drop(T::from_ptr(p))` is the other spelling of `T::dec(p)`)
            src = _call_bbs(b, t['args'][0])
            if not (src and src <= {c.bb for c in cell}):
                continue
            # released on the failed outcome of a pay of that same pointer?
            after_failed_pay = False
            for (sbb, truth, d) in _switch_guard(b, bb):
                if d[0] == 'call' and _is_pay(d[2]) and not truth and _call_bbs(b, d[2]['args'][1]) == src:
                    after_failed_pay = True
            if not after_failed_pay:
                continue
            m += 1
            # confirmed = the pointer was compared equal to a re-read of the cell on the way here; the helped arm has no such test
            confirmed = any(d[0] == 'rv' and d[3]['k'] == 'binop' and d[3]['op'] in ('Eq', 'Ne') and ((d[3]['op'] == 'Eq') == truth)
                            for (sbb, truth, d) in _switch_guard(b, bb))
            col.add('CONFIRMED-ORIGIN', '%s|count of an unconfirmed candidate released after a failed pay-back' % b.fname, confirmed,
                    'the candidate read from the cell was never confirmed (the reader was helped instead) but sat in the helping slot; when its pay-back fails the '
                    'count "someone paid" is released with this container\'s type, although the payer may be a writer of ANOTHER container holding a different value at '
                    'the recycled address', b.loc(bb))
    col.floor('CONFIRMED-ORIGIN', 'helped-arm releases', m, 1)
