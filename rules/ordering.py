"""Memory-ordering and atomic-discipline rules: ORD, ACQ-USE, RMW-ONLY, PAY-CAS, INUSE-FSM,
TAG-TABLE, MP (DESIGN.md §3.1, §3.4, §3.5)."""
from . import util as U
from .mir import op_str, strip_generics


class Ctx:
    """per-configuration analysis context shared by rule families"""

    def __init__(self, fx):
        self.fx = fx
        self.lib = fx.lib
        self.sites = U.atomic_sites(fx.lib)
        self.summ = U.Summaries(fx.lib, self.sites)
        c = fx.lib.const_int
        self.NONE = c('debt::Debt::NONE')
        self.IDLE = c('helping::IDLE')
        self.GEN_TAG = c('helping::GEN_TAG')
        self.REPLACEMENT_TAG = c('helping::REPLACEMENT_TAG')
        self.TAG_MASK = c('helping::TAG_MASK')
        self.NODE_UNUSED = c('list::NODE_UNUSED')
        self.NODE_USED = c('list::NODE_USED')
        self.NODE_COOLDOWN = c('list::NODE_COOLDOWN')
        self.SLOT_CNT = c('fast::DEBT_SLOT_CNT')

    # ---- summaries used as role anchors
    def publishes_fast_debt(self, key):
        return self.summ.has_site(key, lambda s: s.cls == 'debt' and s.sub == 'fast' and s.op in U.RMW_OPS | {'store'})

    def publishes_intent(self, key):
        def pred(s):
            return s.cls == 'control' and s.op == 'swap' and s.body.const_of(s.arg(1)) is None
        return self.summ.has_site(key, pred)

    def confirms_intent(self, key):
        def pred(s):
            return s.cls == 'control' and s.op == 'swap' and U.int_of(s.body, s.arg(1)) == self.IDLE
        return self.summ.has_site(key, pred)

    def local_calls(self, body):
        return U.local_callees(self.lib, body)


_CTX = {}


def ctx(fx):
    if fx.cfg not in _CTX:
        _CTX[fx.cfg] = Ctx(fx)
    return _CTX[fx.cfg]


def in_rwlock_impl(body):
    return 'RwLock<()>' in (body.j.get('impl_self_ty') or '')


def anchors_consts(cx, col, rule):
    ok = True
    for n in ('NONE', 'IDLE', 'GEN_TAG', 'REPLACEMENT_TAG', 'TAG_MASK', 'NODE_UNUSED', 'NODE_USED', 'NODE_COOLDOWN', 'SLOT_CNT'):
        ok &= col.anchor(rule, 'const ' + n, getattr(cx, n) is not None)
    return ok


def unknown_sites(cx, col, rule):
    """an atomic receiver that cannot be classified fails every rule that enumerates a class"""
    for s in cx.sites:
        if s.cls == 'unknown':
            col.fail('ANCHOR', '%s|unclassified atomic receiver|%s|%s' % (rule, s.body.fname, s.op),
                     'atomic %s on a receiver that is none of the known location classes (%s)' % (s.op, s.sub), s.loc)


def prepub_claims(cx, b):
    """Writes that make a FRESH node (the result of Box::leak in this body) USED before this body publishes it with an exchange on
    LIST_HEAD: `node.in_use.store(USED, _)` / `*node.in_use.get_mut() = USED`. Nobody else can see the node yet, so the write is part of
    its construction (any ordering: the publishing exchange releases it). -> [(site, dominates every publication)]"""
    sites = cx.summ.sites_by_body.get(b.key, ())
    pubs = [o for o in sites if o.cls == 'list_head' and o.op in ('compare_exchange', 'compare_exchange_weak', 'store', 'swap')]
    out = []
    for o in sites:
        if o.cls != 'in_use' or o.op not in ('store', 'get_mut'):
            continue
        fresh = o.root[0] in ('local', 'call') and any(x[0] == 'call' and U.callee_name(b.term(x[1])) == 'leak'
                                                       for x in b.origins({'k': 'copy', 'place': {'local': o.root[1], 'proj': []}})) if o.root[0] == 'local' else \
            (o.root[0] == 'call' and U.callee_name(b.term(o.root[1])) == 'leak')
        if not fresh:
            continue
        if o.op == 'store':
            val = U.int_of(b, o.arg(1))
        else:
            val = None
            d = o.term['dest']['local']
            for bb in range(b.n):
                for st in b.stmts(bb):
                    if st['k'] == 'assign' and st['dest']['local'] == d and any(e['k'] == 'deref' for e in st['dest']['proj']) and st['rv']['k'] == 'use':
                        val = U.int_of(b, st['rv']['op'])
        if val != cx.NODE_USED:
            continue
        out.append((o, bool(pubs) and all(b.dominates(o.bb, p_.bb) and o.bb != p_.bb for p_ in pubs)))
    return out


# --------------------------------------------------------------------------------------------
# ORD

def roles(cx, s):
    """[(role, position in s.ords, floor, reason)] for an atomic site"""
    b = s.body
    out = []
    rw = in_rwlock_impl(b)
    if s.cls == 'cell':
        if s.op in ('swap', 'compare_exchange', 'compare_exchange_weak') or s.op.startswith('fetch_'):
            if rw:
                out.append(('cell-rmw-rwlock', 0, 'AcqRel', 'publication of the new pointee / reception of the old one; the lock orders readers and writers'))
                if s.op.startswith('compare_exchange') and _failure_value_used(b, s):
                    out.append(('cell-rmw-rwlock-fail', 1, 'Acquire', 'the pointer found by a FAILED exchange is turned into an owned value and handed back (from_ptr / inc): it was published by a '
                                'swap / store that does not take the lock first, so only an Acquire on this read orders the writer\'s initialisation of the value before our use of it'))
            else:
                out.append(('cell-rmw', 0, 'SeqCst', 'store->load (Dekker) against the reader\'s debt publish; Release publishes the new pointee, Acquire receives the old one'))
        elif s.op == 'load':
            if rw:
                out.append(('cell-load-rwlock', 0, 'Acquire', 'brings the pointee in'))
            else:
                pos = b.term_pos(s.bb)
                role = None
                for (cbb, ct, cb) in cx.local_calls(b):
                    if not b.pos_dominates(b.term_pos(cbb), pos) or cbb == s.bb:
                        continue
                    if cx.publishes_fast_debt(cb.key):
                        role = ('cell-confirm-load', 0, 'SeqCst', 'other half of the Dekker pair with the writer\'s RMW; also Acquire because of ABA')
                    elif cx.publishes_intent(cb.key) and role is None:
                        role = ('cell-fallback-load', 0, 'SeqCst', 'other half of the store-buffering (Dekker) pair of the helping path: reader = control.swap(gen) ; '
                                'cell.load, writer = cell RMW ; control.load. A writer that still read IDLE must be seen by this load; only a SeqCst load is in the single total '
                                'order that argument needs (with Acquire the load may return the pointer the writer already replaced and released: Miri shows the use-after-free)')
                if role:
                    out.append(role)
    elif s.cls == 'debt':
        if s.op == 'swap' and s.sub == 'fast':
            out.append(('debt-fast-publish', 0, 'SeqCst', 'Dekker pair with the writer\'s cell RMW'))
        if s.op in ('compare_exchange', 'compare_exchange_weak') and U.int_of(b, s.arg(2)) == cx.NONE:
            out.append(('debt-payback', 0, 'SeqCst', 'Release: protected accesses may not sink below the pay-back. SeqCst because the same exchange is the WRITER\'s look at the slot: '
                        'writer = cell RMW ; slot exchange, reader = slot.swap ; cell.load is a store-buffering pair and the exchange must be in the single total order (both outcomes)'))
            out.append(('debt-payback-fail', 1, 'SeqCst', 'the failed exchange is the writer\'s READ of the slot in the store-buffering pair above (a Relaxed / Acquire failure is formally allowed to return a value older than the reader\'s slot.swap); and at least Acquire because the Release of a reader that returned its debt itself needs an Acquire partner: the only one who can be it is '
                        'the writer whose pay-back on that slot FAILS (it reads the NONE the reader stored). Without it the reader\'s reads of the value do not happen-before '
                        'its destruction by whoever drops the last reference later (Miri: data race on the pointee)'))
    elif s.cls == 'control':
        if s.op == 'swap':
            v = U.int_of(b, s.arg(1))
            if v is None:
                out.append(('control-intent', 0, 'SeqCst', 'Dekker pair of the helping path'))
            elif v == cx.IDLE:
                out.append(('control-confirm', 0, 'AcqRel', 'Release: the writer that reads IDLE must see the debt in the slot; Acquire: read the helper\'s envelope'))
        elif s.op == 'load':
            # helper side: the receiver is not `self` (arg 1) or the value feeds the tag match
            if s.root != ('arg', 1):
                out.append(('control-helper-load', 0, 'SeqCst', 'the writer\'s half of the store-buffering pair of the helping path (writer = cell RMW ; control.load, reader = control.swap(gen) ; cell.load): '
                            'if it still reads IDLE the reader must see the new pointer, which needs this load in the single total order; Acquire for the reader-written data (active_addr, space_offer)'))
        elif s.op in ('compare_exchange', 'compare_exchange_weak'):
            out.append(('control-handover-cas', 0, 'AcqRel', 'hands the envelope over (Release) and receives the reader\'s space (Acquire)'))
            out.append(('control-handover-cas-fail', 1, 'Acquire', 'the failure value is used as the new control'))
    elif s.cls == 'list_head':
        if s.op == 'load':
            # a load whose result is dereferenced in this body starts a traversal
            if _result_dereferenced(b, s):
                out.append(('head-traverse-load', 0, 'SeqCst', 'a node added before a debt was published must be seen by the writer'))
        elif s.op in ('compare_exchange', 'compare_exchange_weak'):
            out.append(('head-publish', 0, 'SeqCst', 'publishes the node (Release) after acquiring the chain; ordered before any debt in it'))
        elif s.op in ('store', 'swap'):
            out.append(('head-publish', 0, 'SeqCst', 'publishes the node'))
    elif s.cls == 'in_use':
        if s.op in ('compare_exchange', 'compare_exchange_weak'):
            if U.int_of(b, s.arg(1)) == cx.NODE_UNUSED and U.int_of(b, s.arg(2)) == cx.NODE_USED:
                out.append(('inuse-claim', 0, 'Acquire', 'take over what the previous owner released'))
            elif U.int_of(b, s.arg(1)) == cx.NODE_COOLDOWN and U.int_of(b, s.arg(2)) not in (None, cx.NODE_UNUSED, cx.NODE_USED, cx.NODE_COOLDOWN):
                out.append(('inuse-cooldown-check', 0, 'Acquire', 'the 0 seen in active_writers must post-date the cooldown start; also takes over what the owner released'))
        elif s.op == 'swap':
            if U.int_of(b, s.arg(1)) == cx.NODE_COOLDOWN:
                out.append(('inuse-cooldown', 0, 'Release', 'release ownership and the active_writers snapshot'))
        elif s.op == 'store' and any(o is s or (o.bb == s.bb) for o, ok_ in prepub_claims(cx, b) if ok_):
            pass  # construction of a node nobody else can see yet: released by the publishing exchange on LIST_HEAD
        elif s.op == 'store':
            out.append(('inuse-verdict', 0, 'Release', 'a plain store ends the owner\'s release sequence: whoever claims (or re-checks) the node next synchronises with the checker, which acquired from the owner'))
        elif s.op == 'load':
            # the load that guards the cooldown->unused transition
            for o in cx.summ.sites_by_body.get(b.key, ()):
                if o.cls == 'in_use' and o.op.startswith('compare_exchange') and b.dominates(s.bb, o.bb) and o.bb != s.bb \
                        and U.int_of(b, o.arg(2)) == cx.NODE_UNUSED:
                    # (old shape: the load is the only acquire before the release exchange; with an exclusive
                    # COOLDOWN->CHECKING exchange the acquire sits on that exchange and a preceding load is a mere filter)
                    out.append(('inuse-cooldown-check', 0, 'Acquire', 'the 0 seen in active_writers must post-date the cooldown start'))
                    break
    elif s.cls == 'active_writers':
        if s.op == 'fetch_add':
            out.append(('writers-enter', 0, 'Acquire', 'acquire side of the bracket around the writer\'s visit'))
        elif s.op == 'fetch_sub':
            out.append(('writers-leave', 0, 'Release', 'release side of the bracket around the writer\'s visit'))
    return out


def _failure_value_used(b, s):
    """the Err payload of this compare-exchange flows into a RefCnt conversion / count operation or into the return value"""
    res = s.term['dest']['local']
    thr = lambda t: [0] if U.callee_name(t) in ('unwrap_or_else', 'unwrap_or', 'unwrap_err', 'err', 'cast', 'cast_const', 'cast_mut', 'into_ok_or_err') else None
    for bb, t in b.calls(include_cleanup=False):
        if (t['callee'].get('trait') or '').endswith('ref_cnt::RefCnt') and U.callee_name(t) in ('from_ptr', 'inc', 'dec') and t['args']:
            if ('call', s.bb) in b.origins(t['args'][0], through_calls=thr, fields=True):
                return True
    return False


def _result_dereferenced(b, s):
    d = s.term['dest']['local']
    # forward: does the loaded pointer reach `as_ref` / a Deref projection?
    tainted = {d}
    changed = True
    while changed:
        changed = False
        for bb in range(b.n):
            for st in b.stmts(bb):
                if st['k'] != 'assign':
                    continue
                rv = st['rv']
                srcs = []
                if rv['k'] in ('use', 'cast'):
                    o = rv['op']
                    if o['k'] in ('copy', 'move'):
                        srcs.append(o['place']['local'])
                if any(x in tainted for x in srcs) and not st['dest']['proj'] and st['dest']['local'] not in tainted:
                    tainted.add(st['dest']['local'])
                    changed = True
    for bb, t in b.calls():
        if U.callee_name(t) in ('as_ref', 'as_mut') and t['args']:
            a = t['args'][0]
            if a['k'] in ('copy', 'move') and a['place']['local'] in tainted:
                return True
    for bb in range(b.n):
        for st in b.stmts(bb):
            if st['k'] == 'assign':
                for pl in _places_of_rv(st['rv']):
                    if pl['local'] in tainted and any(e['k'] == 'deref' for e in pl['proj']):
                        return True
    return False


def _places_of_rv(rv):
    if 'place' in rv:
        yield rv['place']
    for k in ('op', 'l', 'r', 'arg'):
        o = rv.get(k)
        if isinstance(o, dict) and o.get('k') in ('copy', 'move'):
            yield o['place']
    for f in rv.get('fields', []):
        if f['k'] in ('copy', 'move'):
            yield f['place']


def rule_ord(fx, col, only_roles=None):
    cx = ctx(fx)
    anchors_consts(cx, col, 'ORD')
    unknown_sites(cx, col, 'ORD')
    n = 0
    seen_roles = set()
    for s in cx.sites:
        for (role, pos, floor, reason) in roles(cx, s):
            if only_roles and role not in only_roles:
                continue
            seen_roles.add(role)
            n += 1
            have = s.ords[pos] if pos < len(s.ords) else None
            ok = U.ord_ge(have, floor)
            col.add('ORD', '%s|%s' % (s.key(), role), ok,
                    '%s requested %s, floor %s (%s)' % (role, have, floor, reason), s.loc)
    return seen_roles, n


ORD_ROLE_FLOORS = {
    # role -> minimum number of sites that must be found (counted by hand on the unchanged tree)
    'cell-rmw': 2, 'cell-confirm-load': 1, 'cell-fallback-load': 1, 'debt-fast-publish': 1, 'debt-payback': 1, 'debt-payback-fail': 1,
    'control-intent': 1, 'control-confirm': 1, 'control-helper-load': 2, 'control-handover-cas': 1,
    'control-handover-cas-fail': 1, 'head-traverse-load': 1, 'head-publish': 1, 'inuse-claim': 1,
    'inuse-cooldown': 1, 'inuse-cooldown-check': 1, 'writers-enter': 1, 'writers-leave': 1,
}


def rule_ord_with_floors(fx, col, only_roles=None):
    cx = ctx(fx)
    counts = {}
    anchors_consts(cx, col, 'ORD')
    unknown_sites(cx, col, 'ORD')
    for s in cx.sites:
        for (role, pos, floor, reason) in roles(cx, s):
            if only_roles and role not in only_roles:
                continue
            counts[role] = counts.get(role, 0) + 1
            have = s.ords[pos] if pos < len(s.ords) else None
            col.add('ORD', '%s|%s' % (s.key(), role), U.ord_ge(have, floor),
                    '%s requested %s, floor %s (%s)' % (role, have, floor, reason), s.loc)
    for role, m in ORD_ROLE_FLOORS.items():
        if only_roles and role not in only_roles:
            continue
        col.floor('ORD', 'role ' + role, counts.get(role, 0), m)
    if fx.has_feature('internal-test-strategies') and not only_roles:
        col.floor('ORD', 'role cell-rmw-rwlock', counts.get('cell-rmw-rwlock', 0), 1)
        col.floor('ORD', 'role cell-load-rwlock', counts.get('cell-load-rwlock', 0), 1)
    return counts


# --------------------------------------------------------------------------------------------
# RMW-ONLY

def rule_rmw_only(fx, col):
    cx = ctx(fx)
    unknown_sites(cx, col, 'RMW-ONLY')
    adt = fx.lib.adts.get('arc_swap::ArcSwapAny')
    if col.anchor('RMW-ONLY', 'struct ArcSwapAny', adt is not None):
        atomic_fields = [f for v in adt['variants'] for f in v['fields'] if 'atomic::Atomic' in f['ty']]
        col.add('RMW-ONLY', 'ArcSwapAny|one atomic field', len(atomic_fields) == 1 and atomic_fields[0]['name'] == 'ptr',
                'atomic fields of ArcSwapAny: %s' % [f['name'] for f in atomic_fields])
    n_rmw = 0
    n_excl = 0
    for s in cx.sites:
        if s.cls != 'cell':
            continue
        k = 'RMW-ONLY'
        if s.op in ('swap', 'compare_exchange', 'compare_exchange_weak'):
            n_rmw += 1
            col.ok(k, s.key(), 'single RMW on the cell', s.loc)
        elif s.op == 'load':
            col.ok(k, s.key(), 'read', s.loc)
        elif s.op == 'get_mut':
            # exclusive access: the &mut may only be read through
            n_excl += 1
            d = s.term['dest']['local']
            written = False
            for bb in range(s.body.n):
                for st in s.body.stmts(bb):
                    if st['k'] == 'assign' and st['dest']['local'] == d and any(e['k'] == 'deref' for e in st['dest']['proj']):
                        written = True
            col.add(k, s.key(), not written, 'get_mut result is only read' if not written else 'cell written through get_mut', s.loc)
        else:
            col.fail(k, s.key(), 'the cell may only be written by a single swap/compare_exchange; found `%s`' % s.op, s.loc)
    # compare_exchange_weak may fail spuriously: only inside a loop that retries on its failure
    from . import progress as P
    for s in cx.sites:
        if s.op == 'compare_exchange_weak':
            b = s.body
            lp = [(h, bl, tl) for h, bl, tl in b.loops() if s.bb in bl]
            ok = bool(lp) and any(P._reached_only_on_cas_failure(b, s, t, h, bl) for h, bl, tl in lp for t in tl)
            col.add('RMW-ONLY', s.key() + '|weak exchange retried', ok,
                    'compare_exchange_weak sits in a loop whose back edge is taken on its failure' if ok else
                    'compare_exchange_weak outside a retry loop: a spurious failure is taken for "somebody else changed the value"', s.loc)
    col.floor('RMW-ONLY', 'cell RMW sites', n_rmw, 2)
    col.floor('RMW-ONLY', 'exclusive reads', n_excl, 2)
    # constructors: every ArcSwapAny aggregate gets its ptr from Atomic::new
    n_ctor = 0
    for b in fx.lib.bodies:
        for bb in range(b.n):
            for i, st in enumerate(b.stmts(bb)):
                if st['k'] == 'assign' and st['rv']['k'] == 'aggregate' and st['rv'].get('adt') == 'arc_swap::ArcSwapAny':
                    n_ctor += 1
                    idx = st['rv']['field_names'].index('ptr')
                    d = U.def_rvalue(b, st['rv']['fields'][idx])
                    good = d is not None and d[0] == 'call' and U.callee_name(d[2]) == 'new' and U.is_atomic_callee(d[2]['callee'])
                    col.add('RMW-ONLY', '%s|ctor' % b.fname, good, 'ArcSwapAny.ptr initialised by Atomic::new', b.loc(bb, i))
    col.floor('RMW-ONLY', 'constructors', n_ctor, 2)


# --------------------------------------------------------------------------------------------
# PAY-CAS

def rule_pay_cas(fx, col):
    cx = ctx(fx)
    anchors_consts(cx, col, 'PAY-CAS')
    unknown_sites(cx, col, 'PAY-CAS')
    n_pay = 0
    n_pub = 0
    for s in cx.sites:
        if s.cls != 'debt' or s.op not in U.WRITE_OPS:
            continue
        b = s.body
        if s.op in ('compare_exchange', 'compare_exchange_weak'):
            new = U.int_of(b, s.arg(2))
            exp_orig = b.origins(s.arg(1))
            if new == cx.NONE:
                n_pay += 1
                good = exp_orig and all(o[0] == 'arg' for o in exp_orig)
                if s.op == 'compare_exchange_weak' and not any(s.bb in bl for h, bl, tl in b.loops()):
                    col.fail('PAY-CAS', s.key() + '|strong', 'the pay-back uses compare_exchange_weak outside a retry loop: a spurious failure '
                             'is indistinguishable from "a writer already paid", the reader would then release a count nobody added', s.loc)
                col.add('PAY-CAS', s.key(), good,
                        'debt cleared by compare_exchange(expected = caller\'s pointer, NONE); expected derives from %s' % sorted(exp_orig), s.loc)
            else:
                col.fail('PAY-CAS', s.key(), 'compare_exchange on a debt slot installing something other than NONE', s.loc)
        elif s.op in ('swap', 'store'):
            v = U.int_of(b, s.arg(1))
            if v is not None:
                col.fail('PAY-CAS', s.key(), 'constant %s written into a debt slot by %s (a debt may only be cleared by the pointer-keyed compare_exchange)' % (v, s.op), s.loc)
            else:
                n_pub += 1
                col.ok('PAY-CAS', s.key(), 'publishes a (non-constant) pointer', s.loc)
        else:
            col.fail('PAY-CAS', s.key(), 'unexpected write `%s` to a debt slot' % s.op, s.loc)
    col.floor('PAY-CAS', 'pay-back CAS', n_pay, 1)
    col.floor('PAY-CAS', 'publishing swaps', n_pub, 2)


# --------------------------------------------------------------------------------------------
# INUSE-FSM

def rule_inuse_fsm(fx, col):
    cx = ctx(fx)
    anchors_consts(cx, col, 'INUSE-FSM')
    unknown_sites(cx, col, 'INUSE-FSM')
    edges = set()
    prepub = set()
    for s in cx.sites:
        if s.cls != 'in_use' or (s.op not in U.WRITE_OPS and s.op != 'get_mut'):
            continue
        b = s.body
        if s.op in ('compare_exchange', 'compare_exchange_weak'):
            frm, to = U.int_of(b, s.arg(1)), U.int_of(b, s.arg(2))
            if (frm, to) == (cx.NODE_UNUSED, cx.NODE_USED):
                edges.add('claim')
                col.ok('INUSE-FSM', s.key() + '|UNUSED->USED', 'claim by compare_exchange', s.loc)
            elif (frm, to) == (cx.NODE_COOLDOWN, cx.NODE_UNUSED):
                edges.add('release')
                # A compare-exchange straight from COOLDOWN to UNUSED re-validates only in_use. Its verdict ("no writer inside")
                # comes from a separate, earlier read of active_writers, and in_use has no version: between that read and this
                # exchange the node can go COOLDOWN -> UNUSED -> USED -> COOLDOWN with a writer registered in the USED phase.
                # The exchange then releases the *later* cooldown with a writer inside (and the next owner restarts at the
                # same helping generation).
                conds = _eq_guards(cx, b, s.bb)
                col.add('INUSE-FSM', s.key() + '|COOLDOWN->UNUSED', False,
                        'the node is released by a compare_exchange COOLDOWN->UNUSED guarded by earlier loads %s: the verdict on active_writers and the '
                        'release are not atomic (in_use carries no version: ABA over COOLDOWN->UNUSED->USED->COOLDOWN); the check has to take the node '
                        'out of COOLDOWN exclusively first' % sorted(conds), s.loc)
            elif frm == cx.NODE_COOLDOWN and to is not None and to not in (cx.NODE_UNUSED, cx.NODE_USED, cx.NODE_COOLDOWN):
                edges.add('check')
                col.ok('INUSE-FSM', s.key() + '|COOLDOWN->CHECKING(%s)' % to, 'the checker takes the node out of COOLDOWN exclusively before it looks at active_writers', s.loc)
            else:
                col.fail('INUSE-FSM', s.key() + '|%s->%s' % (frm, to), 'illegal ownership transition %s -> %s' % (frm, to), s.loc)
        elif s.op == 'swap':
            to = U.int_of(b, s.arg(1))
            if to == cx.NODE_COOLDOWN:
                edges.add('cooldown')
                col.ok('INUSE-FSM', s.key() + '|->COOLDOWN', 'owner starts cooldown', s.loc)
            else:
                col.fail('INUSE-FSM', s.key() + '|swap->%s' % to, 'ownership flag swapped to %s (only ->COOLDOWN is legal)' % to, s.loc)
        elif s.op in ('store', 'get_mut') and any(o.bb == s.bb for o, _ in prepub_claims(cx, b)):
            okp = all(ok_ for o, ok_ in prepub_claims(cx, b) if o.bb == s.bb)
            prepub.add(b.key)
            col.add('INUSE-FSM', s.key() + '|pre-publication claim', okp,
                    'a fresh node (Box::leak in this body) is made USED by its creator; the write dominates the exchange on LIST_HEAD that publishes it: %s' % okp, s.loc)
        elif s.op == 'store':
            # the verdict of an exclusive check: UNUSED (released) or COOLDOWN (put back), only by the thread whose
            # compare_exchange COOLDOWN -> CHECKING succeeded, and UNUSED only on active_writers == 0 read after that success
            from .protect import _on_cas_success
            checks = [o for o in cx.summ.sites_by_body.get(b.key, ()) if o.cls == 'in_use' and o.op.startswith('compare_exchange')
                      and U.int_of(b, o.arg(1)) == cx.NODE_COOLDOWN and U.int_of(b, o.arg(2)) not in (None, cx.NODE_UNUSED, cx.NODE_USED, cx.NODE_COOLDOWN)]
            excl = bool(checks) and _on_cas_success(b, checks[0], s.bb)
            vals = set()
            for o in b.origins(s.arg(1)):
                vals.add(U.int_of(b, s.arg(1)) if o[0] != 'const' else o[1])
            d = U.def_rvalue(b, s.arg(1))
            cands = _const_values(b, s.arg(1))
            ok_vals = bool(cands) and cands <= {cx.NODE_UNUSED, cx.NODE_COOLDOWN}
            aw = [o for o in cx.summ.sites_by_body.get(b.key, ()) if o.cls == 'active_writers' and o.op == 'load']
            aw_ok = bool(aw) and all(_on_cas_success(b, checks[0], o.bb) for o in aw) if checks else False
            if cx.NODE_UNUSED in (cands or ()):
                edges.add('release')
            col.add('INUSE-FSM', s.key() + '|verdict store', excl and ok_vals and aw_ok,
                    'store of %s to the ownership flag; only after this body\'s own COOLDOWN->CHECKING exchange succeeded: %s; active_writers read inside that '
                    'exclusive window: %s' % (sorted(cands) if cands else '?', excl, aw_ok), s.loc)
            if excl and ok_vals and aw_ok and cx.NODE_UNUSED in cands:
                # UNUSED only when the count read was zero
                zero = _unused_only_on_zero(cx, b, s, aw)
                col.add('INUSE-FSM', s.key() + '|UNUSED only when no writer is inside', zero,
                        'the value stored is UNUSED only on the active_writers == 0 outcome, COOLDOWN otherwise', s.loc)
        else:
            col.fail('INUSE-FSM', s.key(), 'ownership flag written by `%s`' % s.op, s.loc)
    # the exclusive checking state is left again on every path: a node forgotten in it is never claimable again (and the next
    # thread allocates a new one instead)
    from .protect import _on_cas_success
    for s in cx.sites:
        if s.cls != 'in_use' or not s.op.startswith('compare_exchange'):
            continue
        b = s.body
        if not (U.int_of(b, s.arg(1)) == cx.NODE_COOLDOWN and U.int_of(b, s.arg(2)) not in (None, cx.NODE_UNUSED, cx.NODE_USED, cx.NODE_COOLDOWN)):
            continue
        S = {x for x in b.reachable(unwind=False) if x != s.bb and _on_cas_success(b, s, x)}
        stores = {o.bb for o in cx.summ.sites_by_body.get(b.key, ()) if o.cls == 'in_use' and o.op in ('store', 'swap') and o.bb != s.bb}
        entries = [x for x in S if any(p_ not in S for p_ in b.preds(False)[x])]
        leak = None
        for e_ in entries:
            # (constants assigned on the way are followed: the success may be carried in a flag tested after a join)
            for x in sorted(U.const_path_reach(b, e_, stores)):
                if b.term(x)['k'] == 'return':
                    leak = x
        col.add('INUSE-FSM', s.key() + '|checking state left on every path', bool(S) and leak is None,
                'every path from the successful COOLDOWN->CHECKING exchange passes a verdict store to in_use before it leaves the exclusive region'
                + ('' if leak is None else ' — NOT the one through %s: the node stays in the checking state for ever' % b.loc(leak)), s.loc)
    # initialiser
    for b in fx.lib.bodies:
        for bb in range(b.n):
            for i, st in enumerate(b.stmts(bb)):
                if st['k'] == 'assign' and st['rv']['k'] == 'aggregate' and st['rv'].get('adt') == 'arc_swap::debt::list::Node':
                    idx = st['rv']['field_names'].index('in_use')
                    d = U.def_rvalue(b, st['rv']['fields'][idx])
                    v = None
                    if d and d[0] == 'call' and U.callee_name(d[2]) == 'new':
                        v = U.int_of(b, d[2]['args'][0])
                    edges.add('init')
                    # born USED, or born blank and claimed by every body that allocates one before it publishes it
                    allocs = [x for x in fx.lib.bodies if any(U.callee_name(t) == 'leak' and 'debt::list::Node' in (t['callee'].get('pretty') or '') for _, t in x.calls(include_cleanup=False))]
                    claimed = v == cx.NODE_UNUSED and bool(allocs) and all(any(ok_ for _, ok_ in prepub_claims(cx, x)) for x in allocs)
                    col.add('INUSE-FSM', '%s|init' % b.fname, v == cx.NODE_USED or claimed,
                            'a fresh node is born USED (owned by its creator); found %s%s' % (v, ' and every allocating body claims it before publication' if claimed else ''), b.loc(bb, i))
    for e in ('init', 'claim', 'cooldown', 'check', 'release'):
        col.floor('INUSE-FSM', 'edge ' + e, 1 if e in edges else 0, 1)


def _const_values(b, op, depth=0):
    """set of integer constants an operand can hold (following copies and variables assigned constants in several places)"""
    if depth > 5 or op is None:
        return None
    if op['k'] == 'const':
        return {op['c']['int']} if 'int' in op['c'] else None
    v = U.int_of(b, op)
    if v is not None:
        return {v}
    if op['k'] in ('copy', 'move') and not op['place']['proj']:
        out = set()
        ds = [x for x in b.assigns().get(op['place']['local'], ()) if not x[4]]
        if not ds:
            return None
        for (bb, i, kind, rv, proj) in ds:
            if kind != 'stmt' or rv['k'] != 'use':
                return None
            r = _const_values(b, rv['op'], depth + 1)
            if r is None:
                return None
            out |= r
        return out
    return None


def _unused_only_on_zero(cx, b, s, aw):
    """the operand stored is assigned UNUSED only in blocks control dependent on `active_writers.load() == 0`"""
    op = s.arg(1)
    if U.int_of(b, op) == cx.NODE_UNUSED and (op['k'] == 'const' or b.const_of(op) is not None):
        # one store per verdict: the store of the constant UNUSED itself sits on the `== 0` outcome
        return ('active_writers', 0) in _eq_guards(cx, b, s.bb)
    if op['k'] not in ('copy', 'move') or op['place']['proj']:
        return False
    l = op['place']['local']
    for hop in range(4):
        ds = [x for x in b.assigns().get(l, ()) if not x[4]]
        if len(ds) == 1 and ds[0][2] == 'stmt' and ds[0][3]['k'] == 'use' and ds[0][3]['op']['k'] in ('copy', 'move') and not ds[0][3]['op']['place']['proj']:
            l = ds[0][3]['op']['place']['local']
            continue
        break
    ds = [x for x in b.assigns().get(l, ()) if not x[4]]
    found = False
    for (bb, i, kind, rv, proj) in ds:
        if kind != 'stmt' or rv['k'] != 'use' or rv['op']['k'] != 'const':
            return False
        if rv['op']['c'].get('int') == cx.NODE_UNUSED:
            found = True
            if ('active_writers', 0) not in _eq_guards(cx, b, bb):
                return False
    return found


def _eq_guards(cx, b, bb):
    """{(class, int)} for dominating guards of the form `atomic_load(class) == const` taken on the
    equal outcome"""
    out = set()
    for (sbb, succ, val) in U.dominating_branches(b, bb):
        t_ = b.term(sbb)
        if t_['k'] == 'switch' and t_.get('discr_ty') not in ('bool', None) and isinstance(val, list) and len(val) == 1:
            # `match x.load(..) { 0 => .., _ => .. }`: the arm of the value itself
            for o in b.origins(t_['discr']):
                if o[0] == 'call':
                    tt = b.term(o[1])
                    if U.is_atomic_callee(tt['callee']) and U.callee_name(tt) == 'load' and len(b.origins(t_['discr'])) == 1:
                        out.add((U.Site(b, o[1], tt).cls, val[0]))
        r = U.bool_outcome(b, sbb, val)
        if not r:
            continue
        d, truth = r
        if not d or d[0] != 'rv' or d[3]['k'] != 'binop':
            continue
        rv = d[3]
        eq = (rv['op'] == 'Eq' and truth) or (rv['op'] == 'Ne' and not truth)
        if not eq:
            continue
        for x, y in ((rv['l'], rv['r']), (rv['r'], rv['l'])):
            c = U.int_of(b, y)
            if c is None:
                continue
            for o in b.origins(x):
                if o[0] == 'call':
                    t = b.term(o[1])
                    if U.is_atomic_callee(t['callee']) and U.callee_name(t) == 'load':
                        s = U.Site(b, o[1], t)
                        out.add((s.cls, c))
    return out


# --------------------------------------------------------------------------------------------
# TAG-TABLE

def rule_tag_table(fx, col):
    cx = ctx(fx)
    if not anchors_consts(cx, col, 'TAG-TABLE'):
        return
    R, G, M, I = cx.REPLACEMENT_TAG, cx.GEN_TAG, cx.TAG_MASK, cx.IDLE
    col.add('TAG-TABLE', 'tags|distinct', len({I & M, R, G}) == 3 and (I & M) == 0, 'IDLE=%s GEN_TAG=%s REPLACEMENT_TAG=%s' % (I, G, R))
    col.add('TAG-TABLE', 'tags|fit mask', (R & M) == R and (G & M) == G and R != 0 and G != 0 and ((M + 1) & M) == 0, 'TAG_MASK=%s' % M)
    # generation increment
    n_inc = 0
    for b in fx.lib.bodies:
        if not b.key.startswith('arc_swap::debt::helping'):
            continue
        for bb, t in b.calls():
            if U.callee_name(t) in ('wrapping_add', 'checked_add', 'saturating_add', 'overflowing_add') and len(t['args']) == 2:
                k = U.int_of(b, t['args'][1])
                n_inc += 1
                col.add('TAG-TABLE', '%s|generation increment' % b.fname, k is not None and k > 0 and k % (M + 1) == 0,
                        'generation advanced by %s; must be a non-zero multiple of TAG_MASK+1=%s so the tag bits stay clear' % (k, M + 1), b.loc(bb))
        for bb in range(b.n):
            for i, st in enumerate(b.stmts(bb)):
                if st['k'] == 'assign' and st['rv']['k'] == 'binop' and st['rv']['op'] in ('Add', 'AddWithOverflow', 'AddUnchecked'):
                    src = b.origins(st['rv']['l']) | b.origins(st['rv']['r'])
                    if any(o[0] == 'call' and U.callee_name(b.term(o[1])) == 'get' for o in src):
                        k = U.int_of(b, st['rv']['r'])
                        n_inc += 1
                        col.add('TAG-TABLE', '%s|generation increment' % b.fname, k is not None and k > 0 and k % (M + 1) == 0,
                                'generation advanced by %s' % k, b.loc(bb, i))
    col.floor('TAG-TABLE', 'generation increments', n_inc, 1)
    # the counter really advances: the incremented value is stored back into the thread's `generation` before it goes out as the
    # intent — a counter that is read, incremented and NOT stored makes every transaction of every thread carry the same generation,
    # and a replacement prepared for an earlier transaction is accepted by a later one
    n_adv = 0
    for s_ in cx.sites:
        if s_.cls != 'control' or s_.op != 'swap' or U.int_of(s_.body, s_.arg(1)) is not None:
            continue
        b = s_.body
        incs = {bb for bb, t in b.calls() if U.callee_name(t) in ('wrapping_add', 'checked_add', 'saturating_add', 'overflowing_add')}
        sets = []
        for bb, t in b.calls(include_cleanup=False):
            if U.callee_name(t) in ('set', 'replace') and 'cell::Cell' in t['callee'].get('path', '') and len(t['args']) == 2:
                r_, f_ = b.ref_path(t['args'][0])
                ff = [x for x in f_ if x['k'] == 'field']
                if any(x['adt'] == 'arc_swap::debt::helping::Local' and x['name'] == 'generation' for x in ff):
                    sets.append((bb, t))
        n_adv += 1
        pub = {o[1] for o in b.origins(s_.arg(1), binops=True) if o[0] == 'call'} & incs
        ok = bool(pub) and any(b.dominates(bb, s_.bb) and ({o[1] for o in b.origins(t['args'][1], binops=True) if o[0] == 'call'} & pub) for bb, t in sets)
        col.add('TAG-TABLE', '%s|generation stored back before it is published' % b.fname, ok,
                'the value that goes into control is generation.get() + step (%s) and the same value is written to Local.generation first (%d store(s) of the field in this body)'
                % (sorted(b.loc(x) for x in pub), len(sets)), s_.loc)
    col.floor('TAG-TABLE', 'intent publications', n_adv, 1)
    ks = set()
    for b in fx.lib.bodies:
        if b.key.startswith('arc_swap::debt::helping'):
            for bb, t in b.calls():
                if U.callee_name(t) in ('wrapping_add', 'checked_add', 'saturating_add', 'overflowing_add') and len(t['args']) == 2:
                    ks.add(U.int_of(b, t['args'][1]))
    col.add('TAG-TABLE', 'generation|one step everywhere', len(ks) == 1, 'the wrap predicate and the transaction counter advance by the same step: %s' % sorted(str(k) for k in ks))
    # Handover alignment
    h = fx.lib.adts.get('arc_swap::debt::helping::Handover')
    if col.anchor('TAG-TABLE', 'struct Handover', h is not None):
        al = h.get('align') or 0
        col.add('TAG-TABLE', 'Handover|alignment', al >= M + 1, 'align(Handover)=%s must be >= TAG_MASK+1=%s so envelope addresses have free tag bits' % (al, M + 1))
    # writers of control
    n_w = 0
    shapes = set()
    for s in cx.sites:
        if s.cls != 'control' or s.op not in U.WRITE_OPS:
            continue
        b = s.body
        vi = 2 if s.op.startswith('compare_exchange') else 1
        v = s.arg(vi)
        n_w += 1
        c = U.int_of(b, v)
        if c is not None:
            shapes.add('IDLE' if c == I else 'const')
            col.add('TAG-TABLE', s.key() + '|value', c == I, 'constant %s written to control (only IDLE=%s is a legal constant)' % (c, I), s.loc)
            continue
        tag = _or_tag(b, v)
        if tag == G:
            shapes.add('GEN')
            col.ok('TAG-TABLE', s.key() + '|value', 'x | GEN_TAG', s.loc)
        elif tag == R:
            shapes.add('REPL')
            col.ok('TAG-TABLE', s.key() + '|value', 'addr | REPLACEMENT_TAG', s.loc)
        elif tag is None and s.op == 'swap' and _is_param(b, v):
            # pass-through of an already tagged generation (helping::Slots::get_debt tags it itself)
            col.fail('TAG-TABLE', s.key() + '|value', 'untagged parameter written to control', s.loc)
        else:
            col.fail('TAG-TABLE', s.key() + '|value', 'value written to control is neither IDLE, x|GEN_TAG nor addr|REPLACEMENT_TAG (tag %s)' % tag, s.loc)
    col.floor('TAG-TABLE', 'control writers', n_w, 3)
    col.add('TAG-TABLE', 'control|shapes', shapes == {'IDLE', 'GEN', 'REPL'}, 'shapes written: %s' % sorted(shapes))
    # consumers: a switch on `control & TAG_MASK` must have exactly the three tags as explicit targets
    n_c = 0
    for b in fx.lib.bodies:
        if not b.key.startswith('arc_swap::debt::helping'):
            continue
        for bb in range(b.n):
            t = b.term(bb)
            if t['k'] != 'switch':
                continue
            d = U.def_rvalue(b, t['discr'])
            if d and d[0] == 'rv' and d[3]['k'] == 'binop' and d[3]['op'] == 'BitAnd' and U.int_of(b, d[3]['r']) == M:
                vals = sorted(v for v, _ in t['targets'])
                n_c += 1
                # the otherwise arm must not return normally
                oth = t['otherwise']
                diverges = not any(b.term(x)['k'] == 'return' for x in b.reach_from(oth, unwind=False, avoid=set(tb for _, tb in t['targets']) - {oth}))
                full = vals == sorted({I & M, R, G})
                if not full and set(vals) == {R, G}:
                    # the IDLE arm written as an early exit before the match: `if control == IDLE { break }` on the same value
                    src = b.origins(d[3]['l'])
                    for (sbb, succ, val) in U.dominating_branches(b, bb, unwind=False):
                        r_ = U.bool_outcome(b, sbb, val)
                        if r_ and r_[0] and r_[0][0] == 'rv' and r_[0][3]['k'] == 'binop' and r_[0][3]['op'] in ('Eq', 'Ne'):
                            rv_, truth = r_[0][3], r_[1]
                            if ((rv_['op'] == 'Eq') != truth) and any(U.int_of(b, y) == I and b.origins(x) == src for x, y in ((rv_['l'], rv_['r']), (rv_['r'], rv_['l']))):
                                full = True
                col.add('TAG-TABLE', '%s|tag match' % b.fname, full,
                        'match on control & TAG_MASK handles %s, table is %s' % (vals, sorted({I & M, R, G})), b.loc(bb))
            elif d and d[0] == 'rv' and d[3]['k'] == 'binop' and d[3]['op'] in ('Eq', 'Ne'):
                # the comparison form: `control & TAG_MASK == SOME_TAG`
                for x, y in ((d[3]['l'], d[3]['r']), (d[3]['r'], d[3]['l'])):
                    dx = U.def_rvalue(b, x)
                    c = U.int_of(b, y)
                    if c is not None and dx and dx[0] == 'rv' and dx[3]['k'] == 'binop' and dx[3]['op'] == 'BitAnd' and U.int_of(b, dx[3]['r']) == M:
                        n_c += 1
                        col.add('TAG-TABLE', '%s|tag compared' % b.fname, c in (I & M, R, G), 'control & TAG_MASK is compared with %s, table is %s' % (c, sorted({I & M, R, G})), b.loc(bb))
    col.floor('TAG-TABLE', 'tag consumers', n_c, 1)


def _or_tag(b, op):
    d = U.def_rvalue(b, op)
    if d and d[0] == 'rv' and d[3]['k'] == 'binop' and d[3]['op'] == 'BitOr':
        for side in ('r', 'l'):
            c = U.int_of(b, d[3][side])
            if c is not None:
                return c
    return None


def _is_param(b, op):
    return all(o[0] == 'arg' for o in b.origins(op))


# --------------------------------------------------------------------------------------------
# MP: message passing through the envelope

def rule_mp(fx, col):
    cx = ctx(fx)
    anchors_consts(cx, col, 'MP')
    n_w = n_r = 0
    by_body = cx.summ.sites_by_body
    for key, sites in by_body.items():
        b = fx.lib.by_key[key]
        stores = [s for s in sites if s.cls == 'handover' and s.op in ('store', 'swap')]
        cas = [s for s in sites if s.cls == 'control' and s.op.startswith('compare_exchange')]
        for st in stores:
            n_w += 1
            # the envelope written is the one published: the CAS's new value derives from the
            # same pointer as the store's receiver, and the store dominates the CAS
            ok = False
            why = 'no control compare_exchange publishes this envelope'
            for c in cas:
                recv = b.origins(st.arg(0), binops=True)
                newv = b.origins(c.arg(2), binops=True)
                shared = {o for o in recv & newv if o[0] == 'call'}
                dom = b.pos_dominates(b.term_pos(st.bb), b.term_pos(c.bb)) and st.bb != c.bb
                tag = _or_tag(b, c.arg(2))
                if shared and dom and tag == cx.REPLACEMENT_TAG:
                    ok = True
                    why = 'envelope filled at %s before being published by the control CAS at %s' % (st.loc, c.loc)
                elif shared and not dom:
                    why = 'envelope is published before it is filled'
            col.add('MP', '%s|fill-before-publish' % b.fname, ok, why, st.loc)
            # after a successful hand-over the helper adopts the reader's envelope
            sp_stores = [s for s in sites if s.cls == 'space_offer' and s.op == 'store']
            sp_loads = [s for s in sites if s.cls == 'space_offer' and s.op == 'load' and s.root != ('arg', 1)]
            good = False
            for ss in sp_stores:
                vo = b.origins(ss.arg(1))
                if any(('call', ld.bb) in vo for ld in sp_loads) and ss.root == ('arg', 1):
                    good = any(b.dominates(c.bb, ss.bb) and c.bb != ss.bb for c in cas)
            col.add('MP', '%s|adopt-their-space' % b.fname, good,
                    'after the hand-over the helper stores the space it read from the reader into its own space_offer')
        loads = [s for s in sites if s.cls == 'handover' and s.op == 'load']
        swaps = [s for s in sites if s.cls == 'control' and s.op == 'swap']
        for ld in loads:
            n_r += 1
            recv = b.origins(ld.arg(0), binops=True)
            src = [s for s in swaps if ('call', s.bb) in recv and b.dominates(s.bb, ld.bb)]
            ok = bool(src) and all(U.ord_ge(s.ords[0], 'Acquire') for s in src)
            col.add('MP', '%s|read-after-acquire' % b.fname, ok,
                    'envelope address comes from the control swap (>= Acquire) that dominates the envelope load', ld.loc)
            sp = [s for s in sites if s.cls == 'space_offer' and s.op == 'store' and s.root == ('arg', 1)]
            good = any(any(('call', s.bb) in b.origins(x.arg(1), binops=True) for s in swaps) for x in sp)
            col.add('MP', '%s|adopt-envelope' % b.fname, good,
                    'the reader advertises the envelope it received as its next space_offer')
    col.floor('MP', 'envelope writers', n_w, 1)
    col.floor('MP', 'envelope readers', n_r, 1)


# --------------------------------------------------------------------------------------------
# ACQ-USE

def rule_acq_use(fx, col):
    """A pointer read from the cell that flows into from_ptr / HybridProtection::new must have been
    produced by (or be re-validated against) a >=Acquire read of the same cell."""
    cx = ctx(fx)
    n = 0
    for b in fx.lib.bodies:
        cell_sites = [s for s in cx.summ.sites_by_body.get(b.key, ()) if s.cls == 'cell' and s.op in ('load', 'swap', 'compare_exchange', 'compare_exchange_weak')]
        if not cell_sites:
            continue
        by_bb = {s.bb: s for s in cell_sites}
        for bb, t in b.calls():
            nm = U.callee_name(t)
            is_use = (nm == 'from_ptr' and t['callee'].get('trait', '').endswith('RefCnt')) or \
                     (nm == 'new' and 'HybridProtection' in t['callee'].get('path', ''))
            if not is_use or not t['args']:
                continue
            ai = 0
            if nm == 'new':
                from .protect import new_arg_positions
                ai = new_arg_positions(t)[0]
            org = b.origins(t['args'][ai])
            srcs = [by_bb[o[1]] for o in org if o[0] == 'call' and o[1] in by_bb]
            if not srcs:
                continue
            n += 1
            # acceptable: some cell read with >= Acquire at or after the producing read dominates the use
            acq = [s for s in cell_sites if U.ord_ge(s.ords[0], 'Acquire') and b.dominates(s.bb, bb)
                   and all(b.dominates(p.bb, s.bb) for p in srcs)]
            ok = bool(acq)
            col.add('ACQ-USE', '%s|%s@%s' % (b.fname, nm, _nth_call(b, bb, nm)), ok,
                    'pointer read from the cell at %s is turned into an owned value; acquire reads dominating the use: %s'
                    % ([s.loc for s in srcs], [(s.loc, s.ords[0]) for s in acq]), b.loc(bb))
    col.floor('ACQ-USE', 'cell-pointer uses', n, 4)


def _nth_call(b, bb, name):
    k = 0
    for x, t in b.calls():
        if U.callee_name(t) == name:
            if x == bb:
                return k
            k += 1
    return k
