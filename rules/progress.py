"""Progress rules on the instantiated call graph: LOOP-FREE, LOOP-CLASS, NO-BLOCK, NO-RECURSION,
NEVER-FREED (DESIGN.md §3.2, §3.3)."""
import re
from collections import defaultdict

from . import util as U
from .core import load_table
from .mir import strip_generics
from . import ordering as O

_LEAF = None
_COLD = None


def leaf_class(inst):
    global _LEAF
    if _LEAF is None:
        from .mir import norm_path
        t = load_table('leaf_classes.json')
        _LEAF = {'exact': {norm_path(k): v for k, v in t['exact'].items()}, 'prefix': {norm_path(k): v for k, v in t['prefix'].items()},
                 'family': [(re.compile(rx), c) for rx, c, _why in t.get('family', [])]}
    from .mir import norm_path
    p = norm_path(inst['path'])
    if p in _LEAF['exact']:
        return _LEAF['exact'][p]
    for pre, c in _LEAF['prefix'].items():
        if p.startswith(pre):
            return c
    if inst['kind'] == 'intrinsic':
        return 'pure'
    for rx, c in _LEAF['family']:
        if rx.search(p):
            if c == 'pure' and any(('closure@' in a) or a.startswith(('fn(', 'for<', 'unsafe fn(', 'extern ')) for a in (inst.get('args') or [])):
                return 'hof'
            return c
    return None


def cold_edges():
    global _COLD
    if _COLD is None:
        _COLD = load_table('cold_edges.json')['edges']
    return _COLD


def root_groups(fx, strategies=('default', 'fill'), groups=('r',)):
    """root paths -> instance id, filtered by group letter and strategy segment"""
    out = {}
    for path, iid in fx.mono.roots.items():
        name = path.rsplit('::', 1)[-1]
        m = re.match(r'root_([a-z])_', name)
        if not m or m.group(1) not in groups:
            continue
        segs = path.split('::')
        strat = None
        for s in ('default', 'fill', 'rwlock'):
            if s in segs or (s + '_') in segs:
                strat = s
        if strat is None:
            strat = 'default'
        if strat in strategies:
            out[path] = iid
    return out


class Graph:
    def __init__(self, fx):
        self.fx = fx
        self.mono = fx.mono
        self.inst = fx.mono.inst
        self.body_of = {}
        for i in self.inst:
            if i and i.get('walked') and not i.get('shim'):
                b = fx.lib.by_key.get(i['key']) or fx.roots.by_key.get(i['key'])
                if b is not None:
                    self.body_of[i['id']] = b

    def fname(self, iid):
        b = self.body_of.get(iid)
        if b is not None:
            return b.fname
        return self.inst[iid]['pretty']

    def is_cold(self, frm, edge, to):
        ff, tf = self.fname(frm['id']), self.fname(to['id'])
        for e in cold_edges():
            if e['from'] == ff and e['to'] == tf:
                return True
        # the same edge through a new private helper (`fn switch_node(&self) { ..; self.node.set(Some(Node::get())) }` called from
        # new_helping only): the helper is a function the rules have never seen, and every one of its callers is a listed source
        # of this cold edge
        froms = {e['from'] for e in cold_edges() if e['to'] == tf}
        if froms and self._is_new_helper(frm['id']):
            callers = self._callers().get(frm['id'], set())
            if callers and all(self.fname(c) in froms or (self._is_new_helper(c) and self._callers().get(c) and
                                                          all(self.fname(c2) in froms for c2 in self._callers()[c])) for c in callers):
                return True
        return False

    def _is_new_helper(self, iid):
        b = self.body_of.get(iid)
        return b is not None and b.crate is self.fx.lib and b.key in getattr(self.fx.lib, 'inlined_helpers', ())

    def _callers(self):
        if getattr(self, '_rev', None) is None:
            rev = defaultdict(set)
            for inst in self.inst:
                if not inst:
                    continue
                for e in inst.get('calls', []):
                    if e.get('to') is not None:
                        rev[e['to']].add(inst['id'])
            self._rev = rev
        return self._rev

    NO_DROP = ('std::boxed::Box::<T, A>::leak', 'std::mem::forget', 'std::mem::ManuallyDrop::<T>::new',
               'std::sync::Arc::<T>::into_raw', 'std::rc::Rc::<T>::into_raw', 'std::sync::Weak::<T>::into_raw',
               'std::rc::Weak::<T>::into_raw', 'std::boxed::Box::<T>::new', 'std::sync::Arc::<T>::new', 'std::rc::Rc::<T>::new',
               'std::cell::Cell::<T>::new', 'std::cell::Cell::<T>::set', 'std::iter::once', 'std::iter::Iterator::chain',
               '<I as std::iter::IntoIterator>::into_iter', '<T as std::convert::Into<U>>::into', '<T as std::convert::From<T>>::from')

    def _consumed_without_drop(self, inst, e):
        """the by-value argument goes to a std function that stores / forgets it (no drop there)"""
        for c in inst.get('calls', []):
            if c['bb'] == e['bb'] and c['kind'] == 'call' and c.get('to') is not None:
                if self.inst[c['to']]['path'] in self.NO_DROP:
                    return True
        return False

    def reach(self, start_ids, cut_cold=False):
        parent = {}
        seen = set(start_ids)
        st = list(start_ids)
        cut_used = set()
        while st:
            i = st.pop()
            inst = self.inst[i]
            for e in inst.get('calls', []):
                to = e.get('to')
                if to is None or to in seen:
                    continue
                if e['kind'] == 'arg-drop' and self._consumed_without_drop(inst, e):
                    continue
                if cut_cold and self.is_cold(inst, e, self.inst[to]):
                    cut_used.add((self.fname(i), self.fname(to)))
                    continue
                seen.add(to)
                parent[to] = (i, e)
                st.append(to)
        return seen, parent, cut_used

    def chain(self, parent, iid, limit=30):
        out = []
        x = iid
        while x in parent and len(out) < limit:
            p, e = parent[x]
            out.append('%s (%s:%s)' % (self.fname(x), e['kind'], e['line']['line']))
            x = p
        out.append(self.fname(x))
        return list(reversed(out))

    def cycles(self, nodes, cut_cold=False):
        """edges (a, b) closing a cycle within the sub-graph induced by `nodes`"""
        color = {}
        out = []
        for start in nodes:
            if color.get(start):
                continue
            stack = [(start, iter(self._succ(start, nodes, cut_cold)))]
            color[start] = 1
            while stack:
                n, it = stack[-1]
                adv = False
                for m in it:
                    c = color.get(m, 0)
                    if c == 0:
                        color[m] = 1
                        stack.append((m, iter(self._succ(m, nodes, cut_cold))))
                        adv = True
                        break
                    if c == 1:
                        out.append((n, m))
                if not adv:
                    color[n] = 2
                    stack.pop()
        return out

    def _succ(self, i, nodes, cut_cold):
        inst = self.inst[i]
        for e in inst.get('calls', []):
            to = e.get('to')
            if to is None or to not in nodes:
                continue
            if e['kind'] == 'arg-drop' and self._consumed_without_drop(inst, e):
                continue
            if cut_cold and self.is_cold(inst, e, self.inst[to]):
                continue
            yield to


_GRAPHS = {}


def graph(fx):
    if fx.cfg not in _GRAPHS:
        _GRAPHS[fx.cfg] = Graph(fx)
    return _GRAPHS[fx.cfg]


# --------------------------------------------------------------------------------------------
# loop classification on local bodies

FINITE_ITER = re.compile(r'^(std::iter::Chain<|std::slice::Iter<|std::iter::Once<|std::ops::Range<usize>|[\s,&\'a-z_>]|debt::Debt|arc_swap::debt::Debt)+$')


def _loop_calls(b, blocks):
    for bb in sorted(blocks):
        t = b.term(bb)
        if t['k'] == 'call':
            yield bb, t


def _sites(cx, b):
    """atomic sites of a body; a helper body that was inlined into its callers is no longer in the summaries but still an
    instance of the call graph"""
    r = cx.summ.sites_by_body.get(b.key)
    if r is None:
        memo = cx.__dict__.setdefault('_extra_sites', {})
        r = memo.get(b.key)
        if r is None:
            r = [U.Site(b, bb, t) for bb, t in b.calls() if U.is_atomic_callee(t['callee'])]
            memo[b.key] = r
    return r


def _expected_tracks_observed(b, s, tail, head, blocks):
    """A failed exchange means somebody else moved the value only if what the exchange EXPECTS is what was last seen there. With
    a variable that is the rule already (expected := the failure value / a fresh read). With a CONSTANT expected value the loop may
    only go round while the last observation equals that constant: `while seen == C { match x.compare_exchange(C, ..) { Err(v) =>
    seen = v } }`. `while seen >= C` spins for ever on a value that is not C (no one has to change it)."""
    exp = s.arg(1)
    c = U.int_of(b, exp)
    if c is None:
        # a variable: it has to be read in this iteration. A copy taken before the loop (a closure that captured the loop variable by
        # value when it was built) keeps expecting the value of the first look while the loop variable moves on.
        op, outside = exp, False
        for _ in range(8):
            if op is None or op.get('k') not in ('copy', 'move') or op['place']['proj']:
                return True
            l = op['place']['local']
            ds = b.assigns().get(l, [])
            if len(ds) == 1 and ds[0][2] == 'stmt' and not ds[0][4] and ds[0][3]['k'] == 'use' and ds[0][3]['op'].get('k') in ('copy', 'move') \
                    and not ds[0][3]['op']['place']['proj']:
                outside = outside or ds[0][0] not in blocks
                op = ds[0][3]['op']
                continue
            if outside and any(x[0] in blocks for x in ds):
                return False
            if any(x[0] in blocks for x in ds):
                return True   # the variable is refreshed inside the loop (from the failure value or a new read)
            # expected is the same value on every trip (a parameter, a value read before the loop): then the loop may only go round
            # while a FRESH observation made inside the loop equals it (`let old = load(); if old != current { return }; cas(current, ..)`);
            # without that a lost race is retried with the same stale expectation for ever (`let head = load(); while cas(head, ..).is_err() {}`)
            esrc = b.origins(exp)
            for (sbb, succ, val) in U.dominating_branches(b, s.bb, unwind=False):
                if sbb not in blocks:
                    continue
                r = U.bool_outcome(b, sbb, val)
                if not r or not r[0] or r[0][0] != 'rv' or r[0][3]['k'] != 'binop' or r[0][3]['op'] not in ('Eq', 'Ne'):
                    continue
                rv, truth = r[0][3], r[1]
                if (rv['op'] == 'Eq') != truth:
                    continue
                for x, y in ((rv['l'], rv['r']), (rv['r'], rv['l'])):
                    fresh = any(o[0] == 'call' and o[1] in blocks for o in b.origins(x, through_calls=lambda t: [0] if U.callee_name(t) in ('as_ptr', 'as_raw', 'deref', 'borrow', 'cast') else None) - esrc)
                    if fresh and (b.origins(y) & esrc or b.origins(y) == esrc):
                        return True
            return False
        return True
    # the branch in the loop that dominates the exchange: local == C taken on the equal outcome, local carried from the failure value
    for (sbb, succ, val) in U.dominating_branches(b, s.bb, unwind=False):
        if sbb not in blocks:
            continue
        r = U.bool_outcome(b, sbb, val)
        if not r or not r[0] or r[0][0] != 'rv' or r[0][3]['k'] != 'binop':
            continue
        rv, truth = r[0][3], r[1]
        if not ((rv['op'] == 'Eq' and truth) or (rv['op'] == 'Ne' and not truth)):
            continue
        for x, y in ((rv['l'], rv['r']), (rv['r'], rv['l'])):
            if U.int_of(b, y) == c and any(o == ('call', s.bb) for o in b.origins(x, fields=True)):
                return True
    return False


def cls_admitted(cls, allowed):
    """a class label may be composite (`L-CAS+L-CHANGED`: one back edge reached through several `continue`s, each for its own reason)"""
    return bool(cls) and all(part in allowed for part in cls.split('+'))


def classify_back_edge(cx, b, tail, head, _depth=0):
    """returns (class, detail) or (None, why)"""
    # several `continue`s that meet in one empty block before the back edge: each way into that block is judged on its own
    if _depth < 2 and not b.stmts(tail) or (_depth < 2 and all(s_['k'] == 'assign' and s_['rv']['k'] == 'use' and s_['rv']['op'].get('k') == 'const' for s_ in b.stmts(tail))):
        preds = [p_ for p_ in b.preds(False)[tail] if not b.is_cleanup(p_)]
        if b.term(tail)['k'] == 'goto' and len(preds) >= 2:
            parts, whys = [], []
            for p_ in preds:
                c_, w_ = classify_back_edge(cx, b, p_, head, _depth + 1)
                if c_ is None:
                    return (None, 'one of the ways into the back edge (through %s): %s' % (b.loc(p_), w_))
                parts.append(c_)
                whys.append('%s: %s' % (c_, w_))
            uniq = sorted(set('+'.join(parts).split('+')))
            return ('+'.join(uniq), ' | '.join(whys))
    blocks = b.natural_loop(tail, head)
    # ---- L-CONST: the header (or a block dominating the tail) calls Iterator::next on a finite
    # iterator and the loop exits on its None
    for bb, t in _loop_calls(b, blocks):
        c = t['callee']
        if c.get('name') == 'next' and (c.get('trait_pretty') or '').endswith('iter::Iterator') and b.dominates(bb, tail):
            st = c.get('self_ty', '')
            if _finite_iter_ty(st):
                ok, why = _iter_source_bounded(cx, b, t, blocks)
                if ok:
                    # exits on None: some successor of the discriminant switch leaves the loop
                    return ('L-CONST', 'driven by <%s>::next (%s)' % (st, why))
                return (None, 'iterator %s: %s' % (st, why))
            return (None, 'loop driven by Iterator::next of a non-finite / adapted iterator type %s' % st)
    # ---- L-CONST (counted form): `while c < bound { ..; c += k }` — the loop stays only while a counter is below a
    # loop-invariant bound, and every trip around increments that counter by a positive constant
    r = _counted_loop(b, tail, head, blocks)
    if r:
        return ('L-CONST', r)
    # ---- L-CAS: the tail is reachable only through the failure outcome of a CAS in the loop
    cas_sites = [s for s in _sites(cx, b) if s.op.startswith('compare_exchange') and s.bb in blocks]
    for s in cas_sites:
        if not b.dominates(s.bb, tail):
            continue
        fail_only = _reached_only_on_cas_failure(b, s, tail, head, blocks)
        if fail_only and not _expected_tracks_observed(b, s, tail, head, blocks):
            return (None, 'retries a failed %s on %s whose expected value is the constant %s while the value last seen there need not be that constant: '
                    'the exchange then fails without anybody else having made progress' % (s.op, s.cls, U.int_of(b, s.arg(1))))
        if fail_only:
            return ('L-CAS', 'back edge only after a failed %s on %s at %s' % (s.op, s.cls, s.loc))
    # ---- L-CHANGED: guarded by "two reads of the same atomic differ"; loop variable := newer read
    r = _changed_guard(cx, b, tail, head, blocks)
    if r:
        return ('L-CHANGED', r)
    # ---- L-LIST: pointer chase over Node.next
    r = _list_walk(cx, b, tail, head, blocks)
    if r:
        return ('L-LIST', r)
    # ---- L-INTERFERENCE: back edge on the "not swapped" outcome of a CAS-complete callee
    r = _interference(cx, b, tail, head, blocks)
    if r:
        return ('L-INTERFERENCE', r)
    return (None, 'back edge bb%d->bb%d matches no admitted loop class' % (tail, head))


def _counted_loop(b, tail, head, blocks):
    def root(op):
        n = 0
        while op is not None and op.get('k') in ('copy', 'move') and not op['place']['proj'] and n < 6:
            l = op['place']['local']
            ds = [x for x in b.assigns().get(l, ()) if not x[4]]
            if len(ds) == 1 and ds[0][2] == 'stmt' and ds[0][3]['k'] == 'use' and ds[0][3]['op'].get('k') in ('copy', 'move') and not ds[0][3]['op']['place']['proj']:
                op = ds[0][3]['op']
                n += 1
                continue
            return l
        return None
    def assigned_in_loop(l):
        return [x for x in b.assigns().get(l, ()) if x[0] in blocks]
    for sbb in sorted(blocks):
        t = b.term(sbb)
        if t['k'] != 'switch' or not b.dominates(sbb, tail):
            continue
        outs = [x for x in b.term_succs(sbb, False) if x not in blocks]
        ins = [x for x in b.term_succs(sbb, False) if x in blocks]
        if len(outs) != 1 or len(ins) != 1:
            continue
        d = U.def_rvalue(b, t['discr'])
        if not (d and d[0] == 'rv' and d[3]['k'] == 'binop' and d[3]['op'] in ('Lt', 'Le', 'Ne')):
            continue
        v = U.switch_edge_value(b, sbb, ins[0])
        vals = [x for x, _ in t['targets']]
        stays_when_true = (v == [1]) or (v == 'otherwise' and vals == [0])
        if not stays_when_true:
            continue
        c = root(d[3]['l'])
        bound = d[3]['r']
        if c is None or not str(b.local_ty(c)).startswith(('usize', 'u8', 'u16', 'u32', 'u64')):
            continue
        if bound['k'] != 'const':
            bl = root(bound)
            if bl is None or assigned_in_loop(bl):
                continue
        # every assignment of c inside the loop is c := c + k (k > 0), possibly through the checked-add temporary
        incs = []
        ok = True
        for (abb, ai, kind, rv, proj) in assigned_in_loop(c):
            if kind != 'stmt':
                ok = False
                break
            src = rv
            if rv['k'] == 'use' and rv['op'].get('k') in ('copy', 'move') and rv['op']['place']['proj'] and rv['op']['place']['proj'][0]['k'] == 'field':
                tl = rv['op']['place']['local']
                ds = [x for x in b.assigns().get(tl, ()) if not x[4]]
                if len(ds) == 1 and ds[0][2] == 'stmt':
                    src = ds[0][3]
            if src['k'] in ('binop', 'checked_binop') and src['op'] in ('Add', 'AddWithOverflow', 'AddUnchecked') and root(src['l']) == c and \
                    src['r']['k'] == 'const' and (src['r']['c'].get('int') or 0) > 0:
                incs.append(abb)
            else:
                ok = False
                break
        if ok and incs and any(b.dominates(x, tail) for x in incs):
            return 'counted: stays while %s < bound, the counter grows by a positive constant on every trip (at %s), the bound is loop-invariant' % (b.local_name(c) or '_%d' % c, b.loc(incs[0]))
    return None


def _finite_iter_ty(st):
    s = st
    for tok in ('std::iter::Chain<', 'std::slice::Iter<', 'std::iter::Once<', 'std::ops::Range<usize>', 'arc_swap::debt::Debt',
                'debt::Debt', "'_", "'a", '&', ',', '>', ' ', 'usize'):
        s = s.replace(tok, '')
    return s == ''


def _iter_source_bounded(cx, b, next_term, blocks):
    """Range bounds must be constants or the length of a fixed-size array; slice iterators are
    bounded by their (fixed) slice."""
    st = next_term['callee'].get('self_ty', '')
    if 'Range<usize>' not in st:
        return True, 'slice/once/chain iterator'
    # find the Range aggregate feeding the iterator
    org = b.origins(next_term['args'][0], fields=True)
    for o in org:
        if o[0] == 'agg':
            rv = b.stmts(o[1])[o[2]]['rv']
            if rv.get('adt', '').endswith('ops::range::Range') or rv.get('adt', '').endswith('ops::Range'):
                bounds = rv['fields']
                good = True
                why = []
                for f in bounds:
                    if U.int_of(b, f) is not None:
                        why.append('const %s' % U.int_of(b, f))
                        continue
                    d = U.def_rvalue(b, f)
                    if d and d[0] == 'call' and U.callee_name(d[2]) == 'len':
                        aty = d[2].get('arg_tys', [''])[0]
                        src = U.def_rvalue(b, d[2]['args'][0])
                        if src and src[0] == 'rv' and src[3]['k'] == 'cast' and re.search(r'\[[^\]]*; [0-9A-Za-z_:]+\]', _cast_src_ty(b, src[3])):
                            why.append('len of fixed array %s' % _cast_src_ty(b, src[3]))
                            continue
                    if d and d[0] == 'rv' and d[3]['k'] in ('len',):
                        why.append('array len')
                        continue
                    good = False
                    why.append('non-constant bound')
                return good, ', '.join(why)
    # IntoIterator::into_iter(Range{..}) indirection
    for o in org:
        if o[0] == 'call':
            t = b.term(o[1])
            if U.callee_name(t) == 'into_iter':
                sub = dict(next_term)
                sub = {'callee': next_term['callee'], 'args': [t['args'][0]]}
                return _iter_source_bounded(cx, b, sub, blocks)
    return False, 'cannot find the Range feeding the loop'


def _cast_src_ty(b, rv):
    o = rv['op']
    if o['k'] in ('copy', 'move'):
        p = o['place']
        if p['proj']:
            return p['proj'][-1].get('ty', '')
        return b.local_ty(p['local'])
    return ''


def _reached_only_on_cas_failure(b, s, tail, head, blocks):
    """the back-edge source executes only after CAS site s failed"""
    from .protect import _cas_outcome_facts
    facts = []
    for (sbb, succ, val) in U.dominating_branches(b, tail, unwind=False):
        if sbb in blocks and b.dominates(s.bb, sbb):
            facts.extend(U.edge_facts(b, sbb, succ))
    return _cas_outcome_facts(b, s, facts) is False


def _changed_guard(cx, b, tail, head, blocks):
    for (sbb, succ, val) in U.dominating_branches(b, tail, unwind=False):
        if sbb not in blocks:
            continue
        r = U.bool_outcome(b, sbb, val)
        if not r or not r[0] or r[0][0] != 'rv' or r[0][3]['k'] != 'binop':
            continue
        rv, truth = r[0][3], r[1]
        differ = (rv['op'] == 'Eq' and not truth) or (rv['op'] == 'Ne' and truth)
        if not differ:
            continue
        lo, ro = b.origins(rv['l']), b.origins(rv['r'])
        def atomic_loads(org):
            out = []
            for o in org:
                if o[0] == 'call':
                    t = b.term(o[1])
                    if U.is_atomic_callee(t['callee']) and U.callee_name(t) == 'load':
                        out.append(U.Site(b, o[1], t))
            return out
        la, ra = atomic_loads(lo), atomic_loads(ro)
        if not la or not ra:
            continue
        fresh = [s for s in la + ra if s.bb in blocks]
        if not fresh:
            continue
        if {(s.cls, s.root) for s in la} & {(s.cls, s.root) for s in ra}:
            # ... and the loop goes round WITH the newer value: the variable that held the older read is assigned from the re-read on the
            # way to the back edge. Otherwise "they differ" stays true for ever and the loop spins until somebody else changes the word
            # back (the reader finished one transaction and is parked in the next).
            def root(op):
                n = 0
                while op is not None and op.get('k') in ('copy', 'move') and not op['place']['proj'] and n < 8:
                    l = op['place']['local']
                    ds = [x for x in b.assigns().get(l, ()) if not x[4]]
                    if len(ds) == 1 and ds[0][2] == 'stmt' and ds[0][3]['k'] == 'use' and ds[0][3]['op'].get('k') in ('copy', 'move') and not ds[0][3]['op']['place']['proj']:
                        op = ds[0][3]['op']
                        n += 1
                        continue
                    return l
                return None
            fresh_bbs = {s.bb for s in fresh}
            carried = False
            for side in (rv['l'], rv['r']):
                L = root(side)
                if L is None:
                    continue
                for (dbb, di, kind, drv, proj) in b.assigns().get(L, ()):
                    if proj or dbb not in blocks or kind != 'stmt' or not b.dominates(dbb, tail):
                        continue
                    src = b.origins(drv.get('op')) if drv['k'] in ('use', 'cast') else set()
                    if any(o[0] == 'call' and o[1] in fresh_bbs for o in src):
                        carried = True
            if not carried:
                continue
            return 'retries only because two reads of %s differ (re-read at %s)' % (fresh[0].cls, fresh[0].loc)
    return None


def _list_walk(cx, b, tail, head, blocks):
    # the loop variable is an Option<&Node>/pointer re-assigned from `(*node).next`
    for bb in sorted(blocks):
        for i, st in enumerate(b.stmts(bb)):
            if st['k'] != 'assign':
                continue
            rv = st['rv']
            pl = None
            if rv['k'] == 'use' and rv['op']['k'] in ('copy', 'move'):
                pl = rv['op']['place']
            if pl and any(e['k'] == 'field' and e.get('adt') == 'arc_swap::debt::list::Node' and e.get('name') == 'next' for e in pl['proj']):
                if b.dominates(bb, tail):
                    return 'advances along Node.next (written once before publication: see NEXT-ONCE)'
    return None


def _interference(cx, b, tail, head, blocks):
    for (sbb, succ, val) in U.dominating_branches(b, tail, unwind=False):
        if sbb not in blocks:
            continue
        r = U.bool_outcome(b, sbb, val)
        if not r or not r[0]:
            continue
        d, truth = r
        # discriminant may be a copy of a bool local assigned from a call
        if d[0] != 'call':
            continue
        t = d[2]
        if U.callee_name(t) != 'ptr_eq' or truth:
            continue
        # one operand derives from a crate-local compare_and_swap call inside the loop
        for a in t['args']:
            for o in b.origins(a, through_calls=lambda tt: [0] if U.callee_name(tt) in ('deref', 'borrow') else None):
                if o[0] == 'call' and o[1] in blocks and U.callee_name(b.term(o[1])) == 'compare_and_swap':
                    return 'retries only when compare_and_swap reported that another writer got in between'
    return None


def rule_next_once(fx, col):
    """L-LIST support: Node.next is written only on a freshly leaked node, before the publishing CAS"""
    cx = O.ctx(fx)
    n = 0
    for b in fx.lib.bodies:
        for bb in range(b.n):
            for i, st in enumerate(b.stmts(bb)):
                if st['k'] != 'assign':
                    continue
                d = st['dest']
                if any(e['k'] == 'field' and e.get('adt') == 'arc_swap::debt::list::Node' and e.get('name') == 'next' for e in d['proj']):
                    n += 1
                    org = b.origins(d['local'])
                    fresh = any(o[0] == 'call' and U.callee_name(b.term(o[1])) == 'leak' for o in org) and all(o[0] == 'call' for o in org)
                    # no write after a successful publish
                    pubs = [s for s in _sites(cx, b) if s.cls == 'list_head' and s.op.startswith('compare_exchange')]
                    from .protect import _on_cas_success
                    after = any(_on_cas_success(b, s, bb) for s in pubs)
                    col.add('NEXT-ONCE', '%s|write Node.next' % b.fname, fresh and not after and bool(pubs),
                            'Node.next written on a node obtained from Box::leak in the same body (fresh=%s), never after a successful publish (after=%s)' % (fresh, after), b.loc(bb, i))
    col.floor('NEXT-ONCE', 'writes of Node.next', n, 1)
    # aggregate initialisers of Node.next must be null
    for b in fx.lib.bodies:
        for bb in range(b.n):
            for i, st in enumerate(b.stmts(bb)):
                if st['k'] == 'assign' and st['rv']['k'] == 'aggregate' and st['rv'].get('adt') == 'arc_swap::debt::list::Node':
                    idx = st['rv']['field_names'].index('next')
                    d = U.def_rvalue(b, st['rv']['fields'][idx])
                    ok = d is not None and d[0] == 'call' and U.callee_name(d[2]) in ('null', 'null_mut')
                    col.add('NEXT-ONCE', '%s|init Node.next' % b.fname, ok, 'a fresh node starts with next = null', b.loc(bb, i))


# --------------------------------------------------------------------------------------------

def _check_leaves(g, col, rule, seen, parent, forbid=('blocking',), allow_unclassified=False):
    n_leaf = 0
    for i in sorted(seen):
        inst = g.inst[i]
        if inst.get('walked'):
            continue
        n_leaf += 1
        if inst['kind'] == 'virtual':
            # dynamic dispatch: the concrete impls are separate roots
            continue
        c = leaf_class(inst)
        if c is None:
            if not allow_unclassified:
                col.fail('ANCHOR', '%s|unclassified leaf|%s' % (rule, inst['path']),
                         'std/core leaf `%s` is not in tables/leaf_classes.json; classify it (chain: %s)' % (inst['path'], ' > '.join(g.chain(parent, i)[-4:])))
            continue
        if c == 'iter-hof':
            self_ty = (inst.get('args') or [''])[0]
            if not _finite_iter_ty(self_ty):
                col.fail(rule, 'leaf|%s' % inst['path'], 'internal iteration over an iterator that is not a fixed slice/once/chain: %s' % self_ty, path=g.chain(parent, i))
            continue
        if c in forbid:
            col.fail(rule, 'leaf|%s' % inst['path'], '%s primitive reachable: %s' % (c, inst['pretty']), path=g.chain(parent, i))
    return n_leaf


def rule_no_block(fx, col, groups=('r', 'g', 'a', 'k', 'w', 'c', 'f', 's')):
    g = graph(fx)
    roots = root_groups(fx, ('default', 'fill'), groups)
    if not col.anchor('NO-BLOCK', 'hybrid roots', len(roots) >= 20, 'found %d' % len(roots)):
        return
    seen, parent, _ = g.reach(list(roots.values()))
    before = len(col.obs)
    n = _check_leaves(g, col, 'NO-BLOCK', seen, parent)
    if len(col.obs) == before:
        col.ok('NO-BLOCK', 'hybrid roots|%d roots' % len(roots), 'no blocking primitive among %d reachable instances (%d leaves)' % (len(seen), n))
    # positive control: the same query must find the lock from the control root
    ctl = {p: i for p, i in fx.mono.roots.items() if p.endswith('root_x_mutex_lock')}
    found = False
    if ctl:
        s2, p2, _ = g.reach(list(ctl.values()))
        found = any(leaf_class(g.inst[i]) == 'blocking' for i in s2 if not g.inst[i].get('walked'))
    col.add('NO-BLOCK', 'positive control|Mutex::lock', found, 'the query finds Mutex::lock below roots::control_::root_x_mutex_lock')
    if fx.has_feature('internal-test-strategies'):
        rw = root_groups(fx, ('rwlock',), ('r', 'w'))
        s3, p3, _ = g.reach(list(rw.values()))
        f2 = any(leaf_class(g.inst[i]) == 'blocking' for i in s3 if not g.inst[i].get('walked'))
        col.add('NO-BLOCK', 'positive control|RwLock strategy', f2, 'the query finds RwLock::read/write below the lock-based reference strategy')


def _loops_of(g, iid):
    inst = g.inst[iid]
    out = []
    for e in inst.get('back_edges', []):
        if not e['cleanup']:
            out.append((e['from'], e['to']))
    return out


def rule_loop_free(fx, col):
    """C08: reader roots, Hybrid strategies: acyclic call graph, only L-CONST loops, no blocking leaf,
    compare_exchange_weak never outside a loop."""
    g = graph(fx)
    cx = O.ctx(fx)
    roots = root_groups(fx, ('default', 'fill'), ('r', 'g', 'a', 'k'))
    # constructors of caches/maps are not reads
    roots = {p: i for p, i in roots.items() if not re.search(r'root_[ak]_(cache_new|cache_arc_new|cache_from|map_new|cache_drop)', p.rsplit('::', 1)[-1])}
    if not col.anchor('LOOP-FREE', 'reader roots', len(roots) >= 15, 'found %d' % len(roots)):
        return {}
    seen, parent, cut_used = g.reach(list(roots.values()), cut_cold=True)
    for (f, t) in sorted(cut_used):
        col.ok('COLD-EDGE', '%s -> %s' % (f, t), 'edge cut: ' + next((e['reason'] for e in cold_edges() if e['from'] == f and e['to'] == t),
                                                                     next((e['reason'] + ' (reached through the new helper %s, all of whose callers are sources of this cold edge)' % f
                                                                           for e in cold_edges() if e['to'] == t), '')))
    _check_leaves(g, col, 'NO-BLOCK', seen, parent)
    cyc = g.cycles(seen, cut_cold=True)
    for (a, b) in cyc:
        col.fail('NO-RECURSION', '%s -> %s' % (g.fname(a), g.fname(b)), 'call-graph cycle reachable from a read', path=g.chain(parent, a))
    if not cyc:
        col.ok('NO-RECURSION', 'reader graph', '%d instances, acyclic' % len(seen))
    n_loops = 0
    stats = dict(instances=len(seen), roots=len(roots))
    loop_fns = set()
    for i in sorted(seen):
        inst = g.inst[i]
        if not inst.get('walked'):
            continue
        for (t, h) in _loops_of(g, i):
            n_loops += 1
            b = g.body_of.get(i)
            if b is None:
                col.fail('LOOP-FREE', '%s|loop' % inst['pretty'], 'loop in a compiler-generated shim reachable from a read', path=g.chain(parent, i))
                continue
            cls, why = classify_back_edge(cx, b, t, h)
            loop_fns.add(b.fname)
            col.add('LOOP-FREE', '%s|loop@%s' % (b.fname, cls or 'unclassified'), cls_admitted(cls, {'L-CONST'}),
                    ('%s: %s' % (cls, why)) if cls else why, b.loc(h), path=None if cls == 'L-CONST' else g.chain(parent, i))
        # atomic RMW inside a non-const loop is covered by the class requirement above;
        # compare_exchange_weak outside any loop may fail spuriously and must not exist on a read
        b = g.body_of.get(i)
        if b is not None:
            for s in _sites(cx, b):
                if s.op == 'compare_exchange_weak':
                    in_loop = any(s.bb in bl for h, bl, tl in b.loops())
                    col.add('LOOP-FREE', '%s|weak-cas' % b.fname, False if not in_loop else False,
                            'compare_exchange_weak reachable from a read (may fail spuriously / needs a retry loop)', s.loc, path=g.chain(parent, i))
    col.floor('LOOP-FREE', 'reader loops (the fixed slot scan)', n_loops, 1)
    stats['loops'] = n_loops
    stats['loop_fns'] = sorted(loop_fns)
    # static bound on atomic operations per read: sites in reachable lib bodies (loop bodies x trip count)
    n_at = 0
    for i in seen:
        b = g.body_of.get(i)
        if b is not None and b.crate is fx.lib:
            n_at += len([s for s in _sites(cx, b) if s.op != 'new'])
    stats['atomic_sites_reachable'] = n_at
    col.ok('LOOP-FREE', 'summary', 'reader graph: %(instances)d instances from %(roots)d roots, %(loops)d loop(s) in %(loop_fns)s, %(atomic_sites_reachable)d atomic sites' % stats)
    return stats


ADMITTED_WRITER = {'L-CONST', 'L-CAS', 'L-CHANGED', 'L-LIST', 'L-INTERFERENCE'}


def rule_loop_class(fx, col):
    """C09: writer roots and guard ops under the Hybrid strategies."""
    g = graph(fx)
    cx = O.ctx(fx)
    roots = root_groups(fx, ('default', 'fill'), ('w', 'c', 'g', 'r', 'k', 'a', 'f', 's'))
    if not col.anchor('LOOP-CLASS', 'writer roots', len(roots) >= 20, 'found %d' % len(roots)):
        return
    seen, parent, _ = g.reach(list(roots.values()))
    _check_leaves(g, col, 'NO-BLOCK', seen, parent)
    classes = defaultdict(int)
    for i in sorted(seen):
        inst = g.inst[i]
        if not inst.get('walked'):
            continue
        b = g.body_of.get(i)
        if b is not None and b.crate is not fx.lib:
            # loops in the roots crate itself (none expected) are not library code
            continue
        for (t, h) in _loops_of(g, i):
            if b is None:
                col.fail('LOOP-CLASS', '%s|loop' % inst['pretty'], 'loop in a compiler-generated shim', path=g.chain(parent, i))
                continue
            cls, why = classify_back_edge(cx, b, t, h)
            for part in (cls or 'None').split('+'):
                classes[part if cls else None] += 1
            col.add('LOOP-CLASS', '%s|loop@%s' % (b.fname, cls or 'unclassified'), cls_admitted(cls, ADMITTED_WRITER),
                    ('%s: %s' % (cls, why)) if cls else why, b.loc(h), path=None if cls else g.chain(parent, i))
    for cls in ('L-CONST', 'L-CAS', 'L-CHANGED', 'L-LIST', 'L-INTERFERENCE'):
        col.floor('LOOP-CLASS', 'class ' + cls, classes.get(cls, 0), 1)
    # recursion: the only cycle-free re-entry is writer -> pay_all -> help -> replacement() -> load
    cyc = g.cycles(seen)
    for (a, b2) in cyc:
        col.fail('NO-RECURSION', '%s -> %s' % (g.fname(a), g.fname(b2)), 'call-graph cycle reachable from a write/guard operation', path=g.chain(parent, a))
    if not cyc:
        col.ok('NO-RECURSION', 'writer graph', '%d instances, acyclic' % len(seen))
    # no loop waits on a debt slot: Debt loads only in the claim scan
    for s in cx.sites:
        if s.cls == 'debt' and s.op == 'load':
            inl = [h for h, bl, tl in s.body.loops() if s.bb in bl]
            if inl:
                kinds = {classify_back_edge(cx, s.body, tl[0], h)[0] for h, bl, tl in s.body.loops() if s.bb in bl}
                col.add('LOOP-CLASS', '%s|debt load in loop' % s.body.fname, all(cls_admitted(k_, {'L-CONST'}) for k_ in kinds),
                        'a debt slot is read inside a loop of class %s (debts are paid, never awaited)' % sorted(str(k) for k in kinds), s.loc)


def _strip_closure_names(s):
    """a closure type prints as `{closure@<path of the enclosing function>...}`: the path names where it was written, not what it
    owns (its captures are separate drop-glue instances)"""
    out, i = [], 0
    while i < len(s):
        if s.startswith('{closure@', i):
            depth, j = 0, i
            while j < len(s):
                if s[j] == '{':
                    depth += 1
                elif s[j] == '}':
                    depth -= 1
                    if depth == 0:
                        break
                j += 1
            out.append('{closure}')
            i = j + 1
        else:
            out.append(s[i])
            i += 1
    return ''.join(out)


def rule_never_freed(fx, col):
    g = graph(fx)
    roots = root_groups(fx, ('default', 'fill', 'rwlock'), ('r', 'g', 'a', 'k', 'w', 'c', 'f', 's'))
    seen, parent, _ = g.reach(list(roots.values()))
    bad = 0
    pat = re.compile(r'debt::list::Node\b|debt::helping::Handover\b|debt::helping::Slots\b|debt::fast::Slots\b')
    for i in sorted(seen):
        inst = g.inst[i]
        dt = inst.get('drop_ty')
        if dt and pat.search(_strip_closure_names(dt)) and 'NodeReservation' not in dt and 'LocalNode' not in dt:
            bad += 1
            col.fail('NEVER-FREED', 'drop glue|%s' % dt, 'drop glue of %s is reachable: debt nodes must live forever (guards hold &\'static Debt)' % dt, path=g.chain(parent, i))
        if not inst.get('walked') and inst['path'] in ('<std::boxed::Box<T, A> as std::ops::Drop>::drop', 'std::boxed::Box::<T>::from_raw', 'std::ptr::drop_in_place', 'std::alloc::dealloc'):
            if any(pat.search(a) for a in inst['args']):
                bad += 1
                col.fail('NEVER-FREED', 'dealloc|%s' % inst['pretty'], 'a debt node / envelope is deallocated', path=g.chain(parent, i))
    if not bad:
        col.ok('NEVER-FREED', 'all roots', 'no drop glue / deallocation of Node, Slots or Handover among %d instances' % len(seen))
    for k in ('arc_swap::debt::list::Node', 'arc_swap::debt::helping::Handover', 'arc_swap::debt::helping::Slots', 'arc_swap::debt::fast::Slots', 'arc_swap::debt::Debt'):
        a = fx.lib.adts.get(k)
        if col.anchor('NEVER-FREED', 'struct ' + k, a is not None):
            col.add('NEVER-FREED', '%s|no Drop impl' % k, not a['has_drop'], 'has_drop=%s' % a['has_drop'])
    # the only constructor of Node is Box::leak(Box::default())
    n_ctor = 0
    for b in fx.lib.bodies:
        for bb, t in b.calls():
            c = t['callee']
            if 'debt::list::Node' in (c.get('pretty') or '') and c.get('krate') in ('alloc', 'core', 'std') and ('boxed::Box' in c.get('path', '') or 'boxed::Box<' in (c.get('self_ty') or '')):
                nm = c.get('name')
                if nm in ('default', 'new', 'leak'):
                    n_ctor += 1 if nm == 'leak' else 0
                    if nm in ('default', 'new'):
                        # the box must flow into leak
                        d = t['dest']['local']
                        leaked = any(U.callee_name(t2) == 'leak' and ('call', bb) in b.origins(t2['args'][0]) for _, t2 in b.calls())
                        col.add('NEVER-FREED', '%s|Box<Node> is leaked' % b.fname, leaked, 'the freshly allocated node goes straight into Box::leak', b.loc(bb))
                elif nm in ('from_raw', 'drop', 'into_inner', 'drop_in_place'):
                    col.fail('NEVER-FREED', '%s|%s' % (b.fname, nm), 'a Node box is reconstructed / dropped', b.loc(bb))
    col.floor('NEVER-FREED', 'Box::leak::<Node> constructors', n_ctor, 1)
    # positive control
    ctl = {p: i for p, i in fx.mono.roots.items() if p.endswith('root_x_box_drop')}
    found = False
    if ctl:
        s2, _, _ = g.reach(list(ctl.values()))
        found = any((g.inst[i].get('drop_ty') or '').startswith('std::boxed::Box<u8') for i in s2)
    col.add('NEVER-FREED', 'positive control|Box<u8> drop', found, 'the same query finds the Box<u8> drop glue below roots::control_::root_x_box_drop')
