"""Property table: which rules make up each property's check (DESIGN.md §4)."""
from .core import Collector
from . import ordering as O


def _run(rules):
    def run(fx, tier):
        col = Collector(fx.cfg)
        for r in rules:
            r(fx, col)
        return col.obs
    return run


PROPERTIES = {}


def prop(pid, title, rules, explanation, not_decided, **kw):
    PROPERTIES[pid] = dict(title=title, run=_run(rules), explanation=explanation, not_decided=not_decided, **kw)


prop('C07', 'publication / race freedom through the container',
     [O.rule_ord_with_floors, O.rule_acq_use, O.rule_rmw_only, O.rule_mp, O.rule_pay_cas],
     'Decides necessary structural clauses: every atomic site with a protocol role requests at least the floor '
     'ordering of that role (ORD), every pointer read from the cell is acquired before it becomes an owned value '
     '(ACQ-USE), the cell is one atomic variable written only by single RMWs (RMW-ONLY), the hand-over envelope is '
     'filled before it is published and read after an acquire (MP), debts are cleared only by a Release CAS keyed '
     'by the pointer (PAY-CAS).',
     'Sufficiency of these orderings for data-race freedom under C11 for every interleaving is NOT decided.')
