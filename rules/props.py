"""Property table: which rules make up each property's check (DESIGN.md §4)."""
from .core import Collector
from . import ordering as O


def _run(rules):
    def run(fx, tier):
        col = Collector(fx.cfg)
        for r in rules:
            r(fx, col)
        return col.obs
    return run


PROPERTIES = {}


def prop(pid, title, rules, explanation, not_decided, **kw):
    PROPERTIES[pid] = dict(title=title, run=_run(rules), explanation=explanation, not_decided=not_decided, **kw)


prop('C07', 'publication / race freedom through the container',
     [O.rule_ord_with_floors, O.rule_acq_use, O.rule_rmw_only, O.rule_mp, O.rule_pay_cas],
     'Decides necessary structural clauses: every atomic site with a protocol role requests at least the floor '
     'ordering of that role (ORD), every pointer read from the cell is acquired before it becomes an owned value '
     '(ACQ-USE), the cell is one atomic variable written only by single RMWs (RMW-ONLY), the hand-over envelope is '
     'filled before it is published and read after an acquire (MP), debts are cleared only by a Release CAS keyed '
     'by the pointer (PAY-CAS).',
     'Sufficiency of these orderings for data-race freedom under C11 for every interleaving is NOT decided.')

from . import progress as P

prop('C08', 'reads are wait-free',
     [P.rule_loop_free],
     'Decides the statement in its static form on the instantiated reader call graph (load, load_full, guard '
     'drop/into_inner/deref, Cache::load, every Access::load and guard deref; DefaultStrategy and the fallback-only '
     'strategy; all pointer kinds of the configuration): acyclic, no blocking leaf, every loop is a constant-trip-count '
     'scan (L-CONST), no compare_exchange_weak; cold edges (first use on a thread, TLS torn down, generation wrap) are cut and listed.',
     'Step bounds inside std leaves (thread-local access, Arc::clone) are trusted by class, not analysed.')

prop('C09', 'writers and guards never block',
     [P.rule_no_block, P.rule_loop_class, P.rule_next_once],
     'Decides on the instantiated writer/guard call graph under the Hybrid strategies: no blocking primitive reachable '
     '(NO-BLOCK, with positive controls), every loop is of an admitted class whose back edge needs a completed foreign '
     'write or the next array element / list node (LOOP-CLASS: L-CONST, L-CAS, L-CHANGED, L-LIST, L-INTERFERENCE), no '
     'recursion, no loop waits on a debt slot; Node.next is written once before publication (NEXT-ONCE).',
     'A numeric step bound for CAS loops under contention is not decided (lock-free, not wait-free); spurious '
     'compare_exchange_weak failures are trusted to be finite.')
