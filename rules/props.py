"""Property table: which rules make up each property's check (DESIGN.md §4)."""
from .core import Collector
from . import ordering as O


def _run(rules):
    def run(fx, tier):
        col = Collector(fx.cfg)
        for r in rules:
            r(fx, col)
        return col.obs
    return run


PROPERTIES = {}
NOT_APPLICABLE = {}


def prop(pid, title, rules, explanation, not_decided, **kw):
    PROPERTIES[pid] = dict(title=title, run=_run(rules), explanation=explanation, not_decided=not_decided,
                           rule_names=[getattr(r, '__name__', '?').replace('rule_', '').upper() for r in rules], **kw)


prop('C07', 'publication / race freedom through the container',
     [O.rule_ord_with_floors, O.rule_acq_use, O.rule_rmw_only, O.rule_mp, O.rule_pay_cas],
     'Decides necessary structural clauses: every atomic site with a protocol role requests at least the floor '
     'ordering of that role (ORD), every pointer read from the cell is acquired before it becomes an owned value '
     '(ACQ-USE), the cell is one atomic variable written only by single RMWs (RMW-ONLY), the hand-over envelope is '
     'filled before it is published and read after an acquire (MP), debts are cleared only by a Release CAS keyed '
     'by the pointer (PAY-CAS).',
     'Sufficiency of these orderings for data-race freedom under C11 for every interleaving is NOT decided.')

from . import progress as P

prop('C08', 'reads are wait-free',
     [P.rule_loop_free],
     'Decides the statement in its static form on the instantiated reader call graph (load, load_full, guard '
     'drop/into_inner/deref, Cache::load, every Access::load and guard deref; DefaultStrategy and the fallback-only '
     'strategy; all pointer kinds of the configuration): acyclic, no blocking leaf, every loop is a constant-trip-count '
     'scan (L-CONST), no compare_exchange_weak; cold edges (first use on a thread, TLS torn down, generation wrap) are cut and listed.',
     'Step bounds inside std leaves (thread-local access, Arc::clone) are trusted by class, not analysed.')

prop('C09', 'writers and guards never block',
     [P.rule_no_block, P.rule_loop_class, P.rule_next_once],
     'Decides on the instantiated writer/guard call graph under the Hybrid strategies: no blocking primitive reachable '
     '(NO-BLOCK, with positive controls), every loop is of an admitted class whose back edge needs a completed foreign '
     'write or the next array element / list node (LOOP-CLASS: L-CONST, L-CAS, L-CHANGED, L-LIST, L-INTERFERENCE), no '
     'recursion, no loop waits on a debt slot; Node.next is written once before publication (NEXT-ONCE).',
     'A numeric step bound for CAS loops under contention is not decided (lock-free, not wait-free); spurious '
     'compare_exchange_weak failures are trusted to be finite.')

from . import totality as T


def _c13(fx, col):
    T.rule_panic_inv(fx, col)
    T.rule_node_some(fx, col)
    T.rule_with_take(fx, col)
    T.rule_index_mod(fx, col)
    T.rule_envelope_provenance(fx, col)
    T.rule_cooldown_owned(fx, col)
    T.rule_txn_closed(fx, col)
    O.rule_tag_table(fx, col)
    O.rule_inuse_fsm(fx, col)


prop('C13', 'operations are total',
     [_c13, P.rule_loop_class],
     'Decides: every panic-capable terminator reachable from the API roots under the Hybrid strategies (calls into '
     'core::panicking, Option/Result unwrap/expect, assert!/debug_assert!/unreachable!, compiler-inserted bounds / overflow / '
     'division / pointer checks) is matched by a line-free signature to a discharge, and each discharge is itself a checked '
     'static fact: NODE-SOME (typestate of the thread\'s node handle on every path, including the generation-wrap branch), '
     'WITH-TAKE, INDEX-MOD, ENVELOPE-PROVENANCE, COOLDOWN-OWNED, TXN-CLOSED, TAG-TABLE, INUSE-FSM; hangs are excluded by the loop classes of C09.',
     'Panics inside std leaves other than the listed entry points; that all other guarantees continue to hold after the wrap beyond re-running every rule on that path.')
