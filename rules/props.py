"""Property table: which rules make up each property's check (DESIGN.md §4)."""
from .core import Collector
from . import ordering as O
from . import progress as P
from . import totality as T
from . import protect as R
from . import ledger as L
from . import isolation as I
from . import nodelist as N
from . import api as A
from . import kinds as K
from . import typelevel as TL


def _run(rules):
    def run(fx, tier):
        col = Collector(fx.cfg)
        for r in rules:
            r(fx, col)
        return col.obs
    return run


def _raii_only(fx, col):
    sub = Collector(col.cfg)
    R.rule_cover_all(fx, sub)
    col.obs.extend(o for o in sub.obs if o.rule in ('RAII-SPAN',) or (o.rule == 'FLOOR' and 'pay walks' in o.key) or o.rule == 'ANCHOR')



PROPERTIES = {}
NOT_APPLICABLE = {}

CORE_TEXT = (' Imported core-protocol obligations (every behavioural property of the container rests on the same debt / helping '
             'protocol, so a change that breaks one of these breaks this property too): PUBLISH-CONFIRM, INTENT-FIRST, '
             'PAY-BEFORE-RELEASE, COVER-ALL + RAII-SPAN, LOCK-SPAN (reference strategy), CLAIM-EMPTY, PAY-CAS, PAY-USED, SLOT-CLOSED, INUSE-FSM, REUSE-FIRST, NEXT-ONCE, '
             'COOLDOWN-OWNED, NODE-STABLE, ADDR-GUARD + GEN-REVALIDATE + REPLACEMENT-FRESH, ADDR-BEFORE-GEN, OWN-STORAGE, MP, RMW-ONLY, '
             'LEDGER + INC-PROTECTED, BYPASS, the SeqCst floors of both store-buffering pairs (ORD, Dekker roles) and the generation / tag protocol (TAG-TABLE).')


def _core(fx, col):
    for r in (R.rule_publish_confirm, R.rule_intent_first, R.rule_pay_before_release, R.rule_cover_all, R.rule_claim_empty,
              O.rule_pay_cas, R.rule_pay_used, R.rule_slot_closed, O.rule_inuse_fsm, N.rule_reuse_first, P.rule_next_once,
              T.rule_cooldown_owned, T.rule_node_stable, I.rule_addr_guard, I.rule_addr_before_gen, I.rule_own_storage,
              O.rule_mp, O.rule_rmw_only, L.rule_ledger, L.rule_bypass, A.rule_lock_span, A.rule_wrapper_pure, R.rule_ptr_exclusive):
        r(fx, col)
    # both halves of the two store-buffering pairs (the Dekker roles of ORD): a writer that does not see a debt frees the value under
    # whatever the behavioural property is about
    O.rule_ord_with_floors(fx, col, only_roles=_ORD_C01)
    # the generation / tag protocol of the helping path (a generation that never advances lets a later transaction accept the
    # replacement prepared for an earlier one: a stale load, whatever is layered on top of it)
    O.rule_tag_table(fx, col)


CORE_PROPS = ('C01', 'C02', 'C03', 'C04', 'C05', 'C06', 'C07', 'C10', 'C11', 'C12', 'C14', 'C15', 'C16', 'C17', 'C20')


def prop(pid, title, rules, explanation, not_decided, **kw):
    if pid in CORE_PROPS:
        rules = list(rules) + [_core]
        explanation = explanation + CORE_TEXT
    PROPERTIES[pid] = dict(title=title, run=_run(rules), explanation=explanation, not_decided=not_decided,
                           rule_names=[getattr(r, '__name__', '?').replace('rule_', '').upper() for r in rules], **kw)


prop('C07', 'publication / race freedom through the container',
     [O.rule_ord_with_floors, O.rule_acq_use, O.rule_rmw_only, O.rule_mp, O.rule_pay_cas, R.rule_cover_all],
     'Decides necessary structural clauses: every atomic site with a protocol role requests at least the floor '
     'ordering of that role (ORD), every pointer read from the cell is acquired before it becomes an owned value '
     '(ACQ-USE), the cell is one atomic variable written only by single RMWs (RMW-ONLY), the hand-over envelope is '
     'filled before it is published and read after an acquire (MP), debts are cleared only by a Release CAS keyed '
     'by the pointer (PAY-CAS).',
     'Sufficiency of these orderings for data-race freedom under C11 for every interleaving is NOT decided.')


prop('C08', 'reads are wait-free',
     [P.rule_loop_free],
     'Decides the statement in its static form on the instantiated reader call graph (load, load_full, guard '
     'drop/into_inner/deref, Cache::load, every Access::load and guard deref; DefaultStrategy and the fallback-only '
     'strategy; all pointer kinds of the configuration): acyclic, no blocking leaf, every loop is a constant-trip-count '
     'scan (L-CONST), no compare_exchange_weak; cold edges (first use on a thread, TLS torn down, generation wrap) are cut and listed.',
     'Step bounds inside std leaves (thread-local access, Arc::clone) are trusted by class, not analysed.')

prop('C09', 'writers and guards never block',
     [P.rule_no_block, P.rule_loop_class, P.rule_next_once],
     'Decides on the instantiated writer/guard call graph under the Hybrid strategies: no blocking primitive reachable '
     '(NO-BLOCK, with positive controls), every loop is of an admitted class whose back edge needs a completed foreign '
     'write or the next array element / list node (LOOP-CLASS: L-CONST, L-CAS, L-CHANGED, L-LIST, L-INTERFERENCE), no '
     'recursion, no loop waits on a debt slot; Node.next is written once before publication (NEXT-ONCE).',
     'A numeric step bound for CAS loops under contention is not decided (lock-free, not wait-free); spurious '
     'compare_exchange_weak failures are trusted to be finite.')



def _c13(fx, col):
    T.rule_panic_inv(fx, col)
    T.rule_node_some(fx, col)
    T.rule_with_take(fx, col)
    T.rule_index_mod(fx, col)
    T.rule_envelope_provenance(fx, col)
    T.rule_cooldown_owned(fx, col)
    T.rule_txn_closed(fx, col)
    T.rule_node_stable(fx, col)
    O.rule_tag_table(fx, col)
    O.rule_inuse_fsm(fx, col)


prop('C13', 'operations are total',
     [_c13, P.rule_loop_class, A.rule_lock_poison, A.rule_lock_no_user_code, A.rule_write_reply, T.rule_panic_new],
     'Decides: every panic-capable terminator reachable from the API roots under the Hybrid strategies (calls into '
     'core::panicking, Option/Result unwrap/expect, assert!/debug_assert!/unreachable!, compiler-inserted bounds / overflow / '
     'division / pointer checks) is matched by a line-free signature to a discharge, and each discharge is itself a checked '
     'static fact: NODE-SOME (typestate of the thread\'s node handle on every path, including the generation-wrap branch), '
     'WITH-TAKE, INDEX-MOD, ENVELOPE-PROVENANCE, COOLDOWN-OWNED, TXN-CLOSED, TAG-TABLE, INUSE-FSM; hangs are excluded by the loop classes of C09.',
     'Panics inside std leaves other than the listed entry points; that all other guarantees continue to hold after the wrap beyond re-running every rule on that path.')


_ORD_C01 = {'cell-rmw', 'cell-confirm-load', 'cell-fallback-load', 'debt-fast-publish', 'control-intent', 'control-helper-load', 'head-traverse-load', 'head-publish'}


def _ord_c01(fx, col):
    O.rule_ord_with_floors(fx, col, only_roles=_ORD_C01)


prop('C01', 'no use-after-free',
     [R.rule_publish_confirm, R.rule_intent_first, R.rule_pay_before_release, R.rule_cover_all, P.rule_never_freed,
      R.rule_claim_empty, _ord_c01],
     'Decides the structural obligations of the hazard-pointer argument on every path of every configuration: the fast '
     'debt is published before the confirming re-read and the protection is built only on the equal outcome '
     '(PUBLISH-CONFIRM); the read intent is published before the cell is read and the confirmation outcome decides '
     'which pointer is protected (INTENT-FIRST); a pointer taken out of the cell is released only after '
     'wait_for_readers on that pointer and cell (PAY-BEFORE-RELEASE); the pay walk covers every node and all N+1 slots, '
     'helping each node before walking its slots, inside the writer reservation (COVER-ALL, RAII-SPAN); nodes and '
     'envelopes are never freed (NEVER-FREED); slots are claimed only when empty (CLAIM-EMPTY); the SeqCst rows of ORD.',
     'That these obligations suffice under every interleaving and C11 execution (stale relaxed reads, address reuse) is NOT decided.')


prop('C02', 'exact ownership accounting',
     [L.rule_ledger, L.rule_bypass, R.rule_pay_used, O.rule_pay_cas, R.rule_slot_closed, _ord_c01],
     'The count a guard borrows is exact only if the writer that replaces the value SEES the guard\'s debt: both halves of the two '
     'store-buffering pairs keep their SeqCst floor (ORD, the Dekker roles). Decides: on every normal path of every function that touches the raw-pointer/owned-value bridge the number of '
     'reference counts taken equals the number given back (LEDGER; loops by equal balance at the back edge; the one '
     'declared non-zero exit is the hand-over), no count is taken on a pointer whose protection was already returned '
     '(INC-PROTECTED), ownership-bypassing primitives occur only in the admitted idioms (BYPASS), every pay() outcome '
     'decides a branch (PAY-USED), debts are cleared only by the pointer-keyed CAS (PAY-CAS), and no borrow slot stays '
     'occupied after the function that filled it returns without a guard owning it (SLOT-CLOSED).',
     'Which of two racing pay() calls wins (delegated to the single compare_exchange); reclamation timing relative to std Arc semantics.')


def _usercall_inventory(fx, col):
    """USERCALL-STATE (a): the list of user-code call sites in library code reachable from the API"""
    g = P.graph(fx)
    roots = P.root_groups(fx, ('default', 'fill'), ('r', 'g', 'w', 'c', 'a', 'k', 'f', 's'))
    seen, parent, _ = g.reach(list(roots.values()))
    bodies = {}
    for i in seen:
        b = g.body_of.get(i)
        if b is not None and b.crate is fx.lib:
            bodies[b.key] = b
    n = 0
    kinds = {}
    for b in bodies.values():
        for bb, t in b.calls(include_cleanup=False):
            k = L.user_call_kind(t)
            if k:
                n += 1
                kinds[k] = kinds.get(k, 0) + 1
        for bb, t in b.drops(include_cleanup=False):
            if t.get('has_param'):
                n += 1
                kinds['drop of a generic value'] = kinds.get('drop of a generic value', 0) + 1
    col.ok('USERCALL', 'inventory', '%d user-code call sites in %d reachable library bodies: %s' % (n, len(bodies), sorted(kinds.items())))
    col.floor('USERCALL', 'user-code call sites', n, 25)
    # RAII types that carry protocol resources have Drop impls
    for adt in ('arc_swap::strategy::hybrid::HybridProtection', 'arc_swap::debt::list::NodeReservation', 'arc_swap::debt::list::LocalNode', 'arc_swap::ArcSwapAny'):
        a = fx.lib.adts.get(adt)
        if col.anchor('USERCALL', 'struct ' + adt, a is not None):
            col.add('USERCALL', '%s|Drop impl' % adt, a['has_drop'], 'protocol resource released by its destructor on unwind')


prop('C18', 'panics in user code leave the container consistent',
     [_usercall_inventory, L.rule_ledger_unwind, T.rule_txn_closed, R.rule_fast_window, R.rule_cover_all, R.rule_pay_before_release, L.rule_bypass, T.rule_writers_raii, A.rule_lock_poison, A.rule_lock_no_user_code, L.rule_return_slot],
     'Decides: the complete list of user-code call sites reachable from the API (trait methods on type parameters, closure '
     'parameters, drops of generic values, RefCnt::dec) and, for each, that no raw (non-RAII) reference count is held '
     'across it: the ledger evaluated along every unwind edge must reach `resume` with balance 0 (LEDGER-UNWIND; direct '
     'sites and sites that reach user code transitively are reported separately); no user code runs inside an open '
     'helping transaction (TXN-CLOSED); the writer reservation is RAII and spans help and pay (RAII-SPAN); the protocol '
     'resource types have Drop impls.',
     'That the container still holds a legitimately stored value as a run-time fact; only that no write to the cell or a slot is left half-done when user code runs.')


def _help_leaves_foreign(fx, col):
    """C12, the writer's side: a writer that finds a transaction on ANOTHER container in a node leaves that node without waiting for
    it. The retry loop of the helper goes round only because something changed (the classes admitted for C09); a loop that also goes
    round on "address not mine, control unchanged" makes every write wait for the readers of every other container."""
    cx = O.ctx(fx)
    bs = [b for b in fx.lib.bodies if b.fname == 'arc_swap::debt::helping::Slots::help']
    if not col.anchor('LOOP-CLASS', 'helping::Slots::help', len(bs) == 1):
        return
    b = bs[0]
    n = 0
    for h, blocks, tails in b.loops():
        for t in tails:
            n += 1
            cls, why = P.classify_back_edge(cx, b, t, h)
            col.add('LOOP-CLASS', '%s|loop@%s' % (b.fname, cls or 'unclassified'), P.cls_admitted(cls, P.ADMITTED_WRITER), ('%s: %s' % (cls, why)) if cls else why, b.loc(h))
    col.floor('LOOP-CLASS', 'retry loops of the helper', n, 1)


prop('C12', 'containers are isolated',
     [I.rule_addr_guard, I.rule_addr_before_gen, I.rule_own_storage, O.rule_pay_cas, O.rule_mp, T.rule_node_stable, R.rule_confirmed_origin, K.rule_kind_disjoint, _help_leaves_foreign],
     'Decides: a helper produces and hands over a replacement only when the reader\'s published address, re-read in the '
     'same retry iteration, equals the address of the cell being written, and the exchange expects exactly the '
     'generation that was matched (ADDR-GUARD, GEN-REVALIDATE); the reader publishes the address before the generation '
     '(ADDR-BEFORE-GEN); every API method hands the strategy its own cell and strategy, and the replacement closure loads '
     'from that same cell (OWN-STORAGE); debts are keyed by pointer value and cleared only by the pointer-keyed CAS '
     '(PAY-CAS); each hand-over envelope has one owner after the exchange (MP, their-space-before-exchange); the helper\'s retry '
     'loop goes round only when the control word changed, so a writer leaves a node whose transaction belongs to another container '
     'at once (LOOP-CLASS on helping::Slots::help).',
     'Behaviour of interleavings across containers is NOT decided.')


_ORD_C11 = {'inuse-claim', 'inuse-cooldown', 'inuse-cooldown-check', 'writers-enter', 'writers-leave', 'head-traverse-load', 'head-publish', 'inuse-verdict'}


def _ord_c11(fx, col):
    O.rule_ord_with_floors(fx, col, only_roles=_ORD_C11)


prop('C11', 'thread churn is safe and bounded',
     [O.rule_inuse_fsm, N.rule_reuse_first, T.rule_cooldown_owned, _raii_only, _ord_c11, T.rule_node_some, T.rule_node_stable, P.rule_next_once, T.rule_writers_raii, N.rule_node_bound],
     'Decides: the ownership flag of a node only moves along the legal edges (born USED, USED->COOLDOWN by the owner, COOLDOWN->CHECKING by one checker, CHECKING->UNUSED|COOLDOWN by that checker, UNUSED->USED by a claimer), the release guarded by '
     'in_use == COOLDOWN and active_writers == 0 and performed by compare_exchange (INUSE-FSM); a node is allocated only '
     'after a complete failed attempt to reuse one, is initialised before it is published, and is claimed only by a '
     'successful UNUSED->USED exchange (REUSE-FIRST); a thread that lets go of its node detaches the handle and never uses '
     'the cooled node again, LocalNode::drop cools the node down (COOLDOWN-OWNED); writers are counted in for the whole '
     'visit including the helper call (RAII-SPAN); the Acquire/Release rows of ORD on in_use / active_writers / LIST_HEAD; '
     'the thread\'s handle is attached whenever library code runs, also on the TLS-destroyed path (NODE-SOME); the list '
     'is prepend-only with next written once before publication (NEXT-ONCE).',
     'The numeric bound (at most peak-threads nodes) and exclusivity of a node under all interleavings are NOT decided; the rules are the code-shape reasons for both.')


_ORD_SEQ = {'cell-rmw', 'cell-confirm-load', 'cell-fallback-load', 'debt-fast-publish', 'control-intent', 'control-helper-load', 'control-confirm', 'head-traverse-load', 'head-publish'}


def _ord_seq(fx, col):
    O.rule_ord_with_floors(fx, col, only_roles=_ORD_SEQ)


def _inc_protected(fx, col):
    sub = Collector(col.cfg)
    L.rule_ledger(fx, sub)
    col.obs.extend(o for o in sub.obs if o.rule == 'INC-PROTECTED')
    col.ok('INC-PROTECTED', 'scan', 'no RefCnt::inc on a pointer whose debt was already returned (ledger functions: %d)' % len(L.ledger_functions(fx)))


PROPERTIES['C01']['run'] = _run([R.rule_publish_confirm, R.rule_intent_first, R.rule_pay_before_release, R.rule_cover_all,
                                 P.rule_never_freed, R.rule_claim_empty, _ord_c01, _inc_protected, _core])
PROPERTIES['C02']['run'] = _run([L.rule_ledger, L.rule_bypass, R.rule_pay_used, O.rule_pay_cas, R.rule_slot_closed, R.rule_cover_all, A.rule_no_stash, _ord_c01, _core])

prop('C03', 'loads are linearizable (provenance clause)',
     [R.rule_publish_confirm, R.rule_confirmed_origin, R.rule_intent_first, I.rule_addr_guard, I.rule_addr_before_gen, I.rule_own_storage, R.rule_pay_before_release, A.rule_no_stash, _ord_seq],
     'Decides the clause "what a load returns was read from THIS cell INSIDE the call, after the reader made itself visible, '
     'or was produced for it by a helper that validated cell and transaction": provenance of the pointer in every returned '
     'protection (PUBLISH-CONFIRM, INTENT-FIRST), helper validation (ADDR-GUARD, GEN-REVALIDATE, OWN-STORAGE), the helper\'s '
     'value is loaded after the writer\'s own RMW (PAY-BEFORE-RELEASE dominance), nothing thread-local or static remembers a '
     'loaded pointer outside the debt slots (NO-STASH), and the SeqCst rows of ORD.',
     'Linearizability, real-time order and per-thread monotonicity over histories are NOT decided (properties of executions).')

def _ord_c04(fx, col):
    O.rule_ord_with_floors(fx, col, only_roles={'cell-rmw', 'debt-payback', 'debt-payback-fail'})


prop('C04', 'writes totally ordered, each old value handed back once',
     [_ord_c04, O.rule_rmw_only, A.rule_store_is_swap, A.rule_swap_shape, L.rule_ledger, L.rule_bypass, R.rule_pay_before_release, A.rule_cas_shape, A.rule_write_reply],
     'Decides: the container is exactly one atomic variable and every mutation is a single RMW on it, so the write order is '
     'that variable\'s modification order (RMW-ONLY); store = drop(swap) (STORE-IS-SWAP); one count leaves the cell per '
     'successful write and per destruction on every path (LEDGER for swap / compare_and_swap / into_inner / Drop), into_inner '
     'forgets the container so Drop cannot hand the count out twice (BYPASS); the returned handle is released from debts '
     'before it is given out (PAY-BEFORE-RELEASE).',
     'Nothing about histories (given RMW-ONLY the order is the hardware coherence order of the one AtomicPtr: trusted).')

prop('C05', 'compare_and_swap replaces iff the stored pointer equals current',
     [A.rule_cas_shape, A.rule_asraw_siblings, L.rule_ledger, R.rule_pay_before_release, K.rule_refcnt_siblings, A.rule_lock_span, A.rule_write_reply],
     'Decides: per iteration a fresh load; the verdict is pointer equality of the loaded value and `current`; the exchange '
     'expects `current` and installs `new`; every returned protection is the one the verdict was taken on; `new` is forgotten '
     'only on success; `current` stays alive across the loop (CAS-SHAPE); counts balance on both outcomes of both strategy '
     'implementations (LEDGER); all five accepted forms of `current` are the same function of the pointer (ASRAW-SIBLINGS); '
     'null symmetry of the pointer kinds for the None / null form (REFCNT-SIBLINGS).',
     'A-B-A and competing-writer behaviour under interleavings (given by the hardware CAS on the one cell).')

prop('C06', 'rcu is an atomic read-modify-write',
     [A.rule_rcu_shape, A.rule_cas_shape, L.rule_ledger, A.rule_write_reply],
     'Decides RCU-SHAPE: the value passed to f and the `current` of the exchange are the same guard; f\'s result can reach '
     'nothing but the `new` argument (so a discarded attempt is released by the failure path of compare_and_swap and never '
     'visible); retry only on reported interference and with the freshly returned value; the result is the replaced value; '
     'plus CAS-SHAPE and LEDGER of the exchange it builds on.',
     'The composition law numerically (k increments add k) is a consequence of the shape plus C05, not separately computed.')

prop('C14', 'all strategies implement one sequential specification (structural clause)',
     [A.rule_api_agnostic, A.rule_lock_span, L.rule_ledger, R.rule_intent_first, R.rule_publish_confirm, O.rule_pay_cas, R.rule_pay_used,
      R.rule_slot_closed, R.rule_claim_empty, R.rule_cover_all],
     'Decides only the structural clause: the public layer cannot distinguish strategies (API-AGNOSTIC), USE_FAST is read only '
     'as the attempt/fallback selector, Protected for T is the identity, the lock-based reference strategy holds its lock '
     'across read+inc / exchange (LOCK-SPAN), the count ledger of load / wait_for_readers / compare_and_swap is balanced for '
     'HybridStrategy and RwLock<()> alike (LEDGER), and each load returns the value of the cell (provenance).',
     'Equality of returned identities for all single-threaded programs is a functional-equivalence statement this family cannot reach; NOT decided.',
     configs=['A', 'T'])

prop('C15', 'pointer-kind laws',
     [K.rule_refcnt_siblings, K.rule_kind_disjoint, K.rule_nested_empty, L.rule_bypass],
     'Decides REFCNT-SIBLINGS over every `unsafe impl RefCnt`: into_ptr / from_ptr / as_ptr / inc / dec change the count by '
     '+1 / -1 / 0 / +1 / -1 on every path (0 on the empty-value path), conversions are pure (no clone / upgrade), null '
     'symmetry across into_ptr / as_ptr / from_ptr (same predicate, same polarity, inner conversion only when non-null), '
     'Option<T>::Base = T::Base, no upgrade() anywhere in the crate; the as_ptr bracket (BYPASS).',
     'Numeric strong/weak counts of Arc/Rc/Weak themselves, ZST address distinctness, over-aligned pointees (facts about alloc; trusted).',
     configs=['D', 'A', 'W'])

def _load_freshness(fx, col):
    """the clauses of C03 that Cache::load / Access::load inherit through load()/load_full()"""
    R.rule_publish_confirm(fx, col)
    R.rule_intent_first(fx, col)
    I.rule_addr_guard(fx, col)
    I.rule_addr_before_gen(fx, col)
    I.rule_own_storage(fx, col)
    _raii_only(fx, col)


prop('C16', 'Cache returns a current-or-newer value and retains at most one old value',
     [A.rule_cache_shape, _load_freshness, L.rule_ledger, A.rule_write_reply],
     'Decides CACHE-SHAPE: one cached field and no interior mutability; Cache::load (and Access for Cache, MapCache::load) '
     'reach revalidate on every path; the reload is control dependent on the UNEQUAL outcome of comparing the cached pointer '
     'with a load of the same container\'s cell; only that reload writes the cached value and the old one is dropped there; '
     'the projection is applied to the reference of this very load; no unsafe in cache.rs. Imported: the provenance / '
     'helper-validation clauses of C03 that the underlying load_full must satisfy for the cache to be fresh (PUBLISH-CONFIRM, '
     'INTENT-FIRST, ADDR-GUARD, GEN-REVALIDATE, ADDR-BEFORE-GEN, OWN-STORAGE, RAII-SPAN) and LEDGER (one count held).',
     'Freshness / monotonicity over histories (with the shape fixed they reduce to C03 plus read-read coherence of one atomic).')

prop('C17', 'Access / Map projections',
     [A.rule_access_shape, _load_freshness, R.rule_cover_all, P.rule_never_freed],
     'Decides DEREF-PURE (no atomic operation and no load reachable from deref of any guard type, on the instantiated graph), '
     'GUARD-OWNED (MapGuard holds its inner guard by value; Map / AccessConvert / Constant hold no cell or cache), MUST-LOAD '
     '(every Access / DynAccess impl performs exactly one fresh inner load on every path; DynAccess boxes exactly that guard; '
     'Constant returns its own value), and that access.rs contains no unsafe. Imported: the clauses of C03 / C01 that every '
     'guard produced through Access inherits from the underlying load (provenance, helper validation, COVER-ALL, NEVER-FREED: '
     '"keeps that snapshot alive").',
     'Projections supplied by the user.')

prop('C20', 'serde support is transparent',
     [A.rule_serde_shape, L.rule_ledger, A.rule_serde_module],
     'Decides SERDE-SHAPE: serialize = one load, then T::serialize(&*guard, serializer) with the caller\'s serializer, result '
     'returned unchanged, no other serde call; deserialize = T::deserialize(d)? moved into Self::from with no clone/load on '
     'the way (single reference), requiring only S: Default.',
     'Equality of token streams for all values (with the shape fixed the container\'s stream is the pointee\'s stream by construction).',
     configs=['A', 'S'])


prop('C19', 'thread-safety markers follow the pointee',
     [TL.rule_auto_trait_matrix, TL.rule_no_unsafe_auto_impl, TL.rule_witnesses, TL.rule_strategy_sync],
     'Decides the property as stated, by rustc\'s trait solver, on a generated matrix: every public wrapper (container, guard, '
     'caches, maps, map guards, access guards, Constant, DynGuard) x pointer kind (Arc, Option<Arc>, Rc, Option<Rc>, Weak, '
     'rc::Weak) x pointee class (Send+Sync, Send only, Sync only, neither) x strategy. Oracle written from the property text: '
     'soundness W: Send => P: Send, W: Sync => P: Sync (and => P: Send for containers / holders of a shared container); '
     'completeness P: Send+Sync => W: Send+Sync. P\'s own verdict is asked of rustc in the same program. Plus: no explicit '
     'Send/Sync impl exists in the crate (with a positive control), and compile-pass / compile-fail witnesses with twins.',
     'Custom RefCnt kinds are outside the quantifier.',
     level='proof', engine='type-level',
     technique='static analysis: generated type-level witness crate decided by rustc trait solver (const assertions per cell) + impl enumeration over MIR facts + compile-fail witnesses with compiling twins')

prop('C10', 'guards are self-contained snapshots',
     [TL.rule_witnesses, A.rule_guard_fields, P.rule_never_freed, R.rule_claim_empty, O.rule_inuse_fsm, R.rule_slot_closed, A.rule_access_shape,
      L.rule_ledger, _inc_protected, R.rule_cover_all, T.rule_cooldown_owned, _ord_c01],
     'Decides: a Guard / full value / Arc-backed cache carries no borrow of the container and is \'static + Send when the '
     'pointer is (compile-pass witnesses; the borrow-checker twins show that reference-backed maps and caches cannot outlive '
     'it) (NO-BORROW); the &\'static Debt inside a guard stays valid after the creating thread exits because nodes are never '
     'freed (NEVER-FREED) and the writers\' pay walk visits every node whatever its owner state (COVER-ALL); a new owner of a '
     'recycled node claims only empty slots (CLAIM-EMPTY, INUSE-FSM); beyond the fast slots the fallback returns an owning '
     'guard and frees the helping slot (SLOT-CLOSED); a guard never re-reads the container (DEREF-PURE); Drop / into_inner '
     'release exactly what is held and take their count while still protected (LEDGER, INC-PROTECTED); the writer that replaces '
     'the value a guard borrows sees the guard\'s debt: both halves of the store-buffering pair keep their SeqCst floor (ORD, the '
     'Dekker roles).',
     'The orders of guard drop / container drop / thread exit / node reuse as executions are NOT explored.')
