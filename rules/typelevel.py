"""Type-level engine (C19, C10): generated witness crate decided by rustc's trait solver and
borrow checker. Nothing is executed: `cargo check` only."""
import hashlib
import json
import os
import re
import shutil
import subprocess
import tempfile

from . import facts as F
from .core import Ob

POINTEES = {
    # name: (type, Send, Sync) — the oracle's own knowledge is NOT used for verdicts: P's Send/Sync is asked of rustc
    'ss': 'u32',
    'send_only': 'std::cell::Cell<u32>',
    'sync_only': 'SyncOnly',
    'neither': 'Neither',
}

KINDS = {
    'arc': 'std::sync::Arc<{x}>',
    'optarc': 'Option<std::sync::Arc<{x}>>',
    'rc': 'std::rc::Rc<{x}>',
    'optrc': 'Option<std::rc::Rc<{x}>>',
    'weak': 'std::sync::Weak<{x}>',
    'rcweak': 'std::rc::Weak<{x}>',
}

STRATEGIES = {
    'default': 'arc_swap::DefaultStrategy',
    'fill': 'arc_swap::strategy::test_strategies::FillFastSlots',
    'rwlock': 'std::sync::RwLock<()>',
}

# wrapper name -> (type template, flags)
#   holds_ref: the wrapper holds `&'static container` (Send needs the container to be Sync)
#   container: sharing it lets another thread take the pointer out (Sync => P: Send)
#   complete:  P: Send+Sync must imply W: Send+Sync
WRAPPERS = {
    'ArcSwapAny': ('arc_swap::ArcSwapAny<{p}, {s}>', dict(container=True, complete=True)),
    'Guard': ('arc_swap::Guard<{p}, {s}>', dict(complete=True)),
    'Cache_ref': ("arc_swap::cache::Cache<&'static arc_swap::ArcSwapAny<{p}, {s}>, {p}>", dict(holds_ref=True, complete=True)),
    'Cache_arc': ('arc_swap::cache::Cache<std::sync::Arc<arc_swap::ArcSwapAny<{p}, {s}>>, {p}>', dict(holds_ref=True, complete=True)),
    'MapCache_ref': ("arc_swap::cache::MapCache<&'static arc_swap::ArcSwapAny<{p}, {s}>, {p}, fn(&{p}) -> &{p}>", dict(holds_ref=True, complete=True)),
    'Map_ref': ("arc_swap::access::Map<&'static arc_swap::ArcSwapAny<{p}, {s}>, {p}, fn(&{p}) -> &{p}>", dict(holds_ref=True, complete=True)),
    'Map_arc': ('arc_swap::access::Map<std::sync::Arc<arc_swap::ArcSwapAny<{p}, {s}>>, {p}, fn(&{p}) -> &{p}>', dict(holds_ref=True, complete=True)),
    'MapGuard': ('arc_swap::access::MapGuard<arc_swap::Guard<{p}, {s}>, fn(&{p}) -> &{p}, {p}, {p}>', dict(complete=True)),
    'AccessGuard': ('<arc_swap::ArcSwapAny<{p}, {s}> as arc_swap::access::Access<{p}>>::Guard', dict(complete=True)),
    'Constant': ('arc_swap::access::Constant<{p}>', dict(complete=True, nostrat=True)),
    'ConstantGuard': ('<arc_swap::access::Constant<{p}> as arc_swap::access::Access<{p}>>::Guard', dict(complete=True, nostrat=True)),
}
# special cells: a projection chain that passes through a Sync-only type reached by reference. The Map stores only
# its access and fn pointers, so it must be Send + Sync when the access is, whatever the intermediate target type is.
SPECIAL = {
    'Map_through_ref|Send+Sync expected':
        "arc_swap::access::Map<arc_swap::access::Map<std::sync::Arc<arc_swap::ArcSwapAny<std::sync::Arc<OuterRef>, arc_swap::DefaultStrategy>>, OuterRef, fn(&OuterRef) -> &SyncOnly>, SyncOnly, fn(&SyncOnly) -> &u32>",
    'Map_user_access|Send+Sync expected':
        "arc_swap::access::Map<FreshAccess, std::cell::Cell<u32>, fn(&std::cell::Cell<u32>) -> &std::cell::Cell<u32>>",
}
# cells whose Send and Sync differ: a projection (closure) that is Send but not Sync, or Sync but not Send, over a fully
# thread-safe access. The wrapper stores the projection by value, so each marker follows the projection's own marker
# (sharing it through an Arc would demand Send + Sync for either).  name -> (type, expect Send, expect Sync)
_TS = "std::sync::Arc<arc_swap::ArcSwapAny<std::sync::Arc<u32>, arc_swap::DefaultStrategy>>"
_TG = "arc_swap::Guard<std::sync::Arc<u32>, arc_swap::DefaultStrategy>"
SPECIAL2 = {
    'Map_send_only_projection': ("arc_swap::access::Map<%s, u32, SendOnly>" % _TS, True, False),
    'Map_sync_only_projection': ("arc_swap::access::Map<%s, u32, SyncOnly>" % _TS, False, True),
    'MapGuard_send_only_projection': ("arc_swap::access::MapGuard<%s, SendOnly, u32, u32>" % _TG, True, False),
    'MapGuard_sync_only_projection': ("arc_swap::access::MapGuard<%s, SyncOnly, u32, u32>" % _TG, False, True),
    'MapCache_send_only_projection': ("arc_swap::cache::MapCache<%s, std::sync::Arc<u32>, SendOnly>" % _TS, True, False),
    'MapCache_sync_only_projection': ("arc_swap::cache::MapCache<%s, std::sync::Arc<u32>, SyncOnly>" % _TS, False, True),
}
# wrappers over the pointee directly (Arc / Rc kinds only)
DIRECT = {
    'DirectDeref': ('<arc_swap::ArcSwapAny<{p}, {s}> as arc_swap::access::Access<{x}>>::Guard', dict(complete=True)),
}
# wrappers that are never Send/Sync by construction (no completeness), pointee-level
DYN = {
    'DynGuard': ('arc_swap::access::DynGuard<{x}>', dict(complete=False, nostrat=True)),
}

PRELUDE = r'''
#![allow(deprecated, dead_code, unused)]
use std::marker::PhantomData;

pub struct Probe<X: ?Sized>(PhantomData<X>);
pub trait NoSend { const SEND: bool = false; }
pub trait NoSync { const SYNC: bool = false; }
impl<X: ?Sized> NoSend for Probe<X> {}
impl<X: ?Sized> NoSync for Probe<X> {}
impl<X: ?Sized + Send> Probe<X> { pub const SEND: bool = true; }
impl<X: ?Sized + Sync> Probe<X> { pub const SYNC: bool = true; }

/// Sync but not Send (holds a MutexGuard).
pub struct SyncOnly(std::sync::MutexGuard<'static, u32>);
/// Send but not Sync.
pub struct SendOnly(std::cell::Cell<u32>);
/// Neither Send nor Sync.
pub struct Neither(*const u8, std::cell::Cell<u32>);
/// Send + Sync although it leads (by reference) to a Sync-only type.
pub struct OuterRef(&'static SyncOnly);
/// A thread-safe user Access producing a fresh non-Sync value on every load.
pub struct FreshAccess;
impl arc_swap::access::Access<std::cell::Cell<u32>> for FreshAccess {
    type Guard = Box<std::cell::Cell<u32>>;
    fn load(&self) -> Self::Guard { Box::new(std::cell::Cell::new(0)) }
}

// sanity of the probe itself (if these fail the idiom is broken, not arc-swap)
const _: () = assert!(Probe::<u32>::SEND && Probe::<u32>::SYNC, "SELFTEST|u32");
const _: () = assert!(Probe::<std::cell::Cell<u32>>::SEND && !Probe::<std::cell::Cell<u32>>::SYNC, "SELFTEST|Cell");
const _: () = assert!(!Probe::<SyncOnly>::SEND && Probe::<SyncOnly>::SYNC, "SELFTEST|SyncOnly");
const _: () = assert!(!Probe::<Neither>::SEND && !Probe::<Neither>::SYNC, "SELFTEST|Neither");
const _: () = assert!(!Probe::<std::rc::Rc<u32>>::SEND && !Probe::<std::rc::Rc<u32>>::SYNC, "SELFTEST|Rc");
'''


def cells(features):
    out = []
    kinds = dict(KINDS)
    if 'weak' not in features:
        kinds.pop('weak')
        kinds.pop('rcweak')
    strategies = dict(STRATEGIES)
    if 'internal-test-strategies' not in features:
        strategies = {'default': STRATEGIES['default']}
    for pn, x in POINTEES.items():
        for kn, kt in kinds.items():
            p = kt.format(x=x)
            for sn, s in strategies.items():
                if sn == 'rwlock' and kn == 'rcweak':
                    pass
                for wn, (tmpl, fl) in WRAPPERS.items():
                    if fl.get('nostrat') and sn != 'default':
                        continue
                    out.append(('%s|%s|%s|%s' % (wn, kn, pn, sn), tmpl.format(p=p, s=s, x=x), p, fl))
                if kn in ('arc', 'rc'):
                    for wn, (tmpl, fl) in DIRECT.items():
                        out.append(('%s|%s|%s|%s' % (wn, kn, pn, sn), tmpl.format(p=p, s=s, x=x), p, fl))
        for wn, (tmpl, fl) in DYN.items():
            out.append(('%s|-|%s|-' % (wn, pn), tmpl.format(x=x), x, fl))
    return out


def gen_matrix(features):
    lines = [PRELUDE]
    names = []
    for (name, w, p, fl) in cells(features):
        ws, wy = 'Probe::<%s>::SEND' % w, 'Probe::<%s>::SYNC' % w
        ps, py = 'Probe::<%s>::SEND' % p, 'Probe::<%s>::SYNC' % p
        obligations = [
            ('sound-send', '!%s || %s' % (ws, ps)),
            ('sound-sync', '!%s || %s' % (wy, py)),
        ]
        if fl.get('container') or fl.get('holds_ref'):
            obligations.append(('sound-sync-needs-send', '!%s || %s' % (wy, ps)))
        if fl.get('holds_ref'):
            obligations.append(('sound-send-needs-sync', '!%s || %s' % (ws, py)))
        if fl.get('complete'):
            obligations.append(('complete', '!(%s && %s) || (%s && %s)' % (ps, py, ws, wy)))
        for (on, expr) in obligations:
            cell = 'CELL|%s|%s' % (name, on)
            names.append(cell)
            lines.append('const _: () = assert!(%s, "%s");' % (expr, cell))
    for name, w in SPECIAL.items():
        cell = 'CELL|%s' % name
        names.append(cell)
        lines.append('const _: () = assert!(Probe::<%s>::SEND && Probe::<%s>::SYNC, "%s");' % (w, w, cell))
    for name, (w, se, sy) in SPECIAL2.items():
        cell = 'CELL|%s|Send=%s Sync=%s expected' % (name, se, sy)
        names.append(cell)
        lines.append('const _: () = assert!(Probe::<%s>::SEND == %s && Probe::<%s>::SYNC == %s, "%s");' % (w, str(se).lower(), w, str(sy).lower(), cell))
    return '\n'.join(lines) + '\n', names


# compile-pass / compile-fail witnesses (examples of the witness crate)
WITNESSES = {
    # name: (expected: 'pass' | error code, source)
    'pass_guard_outlives_container': ('pass', '''
use arc_swap::{ArcSwap, Guard}; use std::sync::Arc;
fn take() -> Guard<Arc<u32>> { let a = ArcSwap::from_pointee(1u32); let g = a.load(); drop(a); g }
fn is_static<T: 'static>() {} fn is_send<T: Send>() {}
fn main() { is_static::<Guard<Arc<u32>>>(); is_send::<Guard<Arc<u32>>>(); let _ = take; }
'''),
    'pass_full_outlives_container': ('pass', '''
use arc_swap::ArcSwap; use std::sync::Arc;
fn take() -> Arc<u32> { let a = ArcSwap::from_pointee(1u32); let v = a.load_full(); drop(a); v }
fn main() { let _ = take; }
'''),
    'pass_cache_arc_outlives_handle': ('pass', '''
use arc_swap::{ArcSwap, cache::Cache}; use std::sync::Arc;
fn take() -> Cache<Arc<ArcSwap<u32>>, Arc<u32>> { let a = Arc::new(ArcSwap::from_pointee(1u32)); let c = Cache::new(Arc::clone(&a)); drop(a); c }
fn is_static<T: 'static>() {} fn is_send<T: Send>() {}
fn main() { is_static::<Cache<Arc<ArcSwap<u32>>, Arc<u32>>>(); is_send::<Cache<Arc<ArcSwap<u32>>, Arc<u32>>>(); let _ = take; }
'''),
    'pass_direct_guard_outlives': ('pass', '''
use arc_swap::{ArcSwap, access::Access}; use std::sync::Arc; use std::ops::Deref;
fn take() -> impl Deref<Target = u32> { let a = ArcSwap::from_pointee(1u32); let g = <ArcSwap<u32> as Access<u32>>::load(&a); drop(a); g }
fn main() { let _ = take; }
'''),
    'fail_map_ref_borrows_container': ('E0505', '''
use arc_swap::{ArcSwap, access::Access}; use std::ops::Deref;
fn main() { let a = ArcSwap::from_pointee(1u32); let m = a.map(|x: &u32| x); drop(a); let g = m.load(); let _ = *g; }
'''),
    'pass_map_ref_twin': ('pass', '''
use arc_swap::{ArcSwap, access::Access}; use std::ops::Deref;
fn main() { let a = ArcSwap::from_pointee(1u32); let m = a.map(|x: &u32| x); let g = m.load(); let _ = *g; drop(g); drop(m); drop(a); }
'''),
    'pass_mapguard_outlives_map_and_container': ('pass', '''
use arc_swap::{ArcSwap, access::Access}; use std::ops::Deref;
fn main() { let a = ArcSwap::from_pointee(1u32); let g = { let m = a.map(|x: &u32| x); m.load() }; drop(a); let _ = *g; }
'''),
    'fail_cache_ref_borrows_container': ('E0505', '''
use arc_swap::{ArcSwap, cache::Cache};
fn main() { let a = ArcSwap::from_pointee(1u32); let mut c = Cache::new(&a); drop(a); let _ = c.load(); }
'''),
    'pass_cache_ref_twin': ('pass', '''
use arc_swap::{ArcSwap, cache::Cache};
fn main() { let a = ArcSwap::from_pointee(1u32); let mut c = Cache::new(&a); let _ = c.load(); drop(c); drop(a); }
'''),
    'fail_cell_container_to_thread': ('E0277', '''
fn main() { let shared = arc_swap::ArcSwap::from_pointee(std::cell::Cell::new(42)); std::thread::spawn(|| { drop(shared); }); }
'''),
    'pass_container_to_thread_twin': ('pass', '''
fn main() { let shared = arc_swap::ArcSwap::from_pointee(42); std::thread::spawn(|| { drop(shared); }); }
'''),
    'fail_cell_guard_to_thread': ('E0277', '''
fn main() { let shared = arc_swap::ArcSwap::from_pointee(std::cell::Cell::new(42)); let guard = shared.load(); std::thread::spawn(|| { drop(guard); }); }
'''),
    'pass_guard_to_thread_twin': ('pass', '''
fn main() { let shared = arc_swap::ArcSwap::from_pointee(42); let guard = shared.load(); std::thread::spawn(|| { drop(guard); }); }
'''),
    'fail_rc_container_to_thread': ('E0277', '''
use std::rc::Rc; use arc_swap::ArcSwapAny;
fn main() { let a: ArcSwapAny<Rc<usize>> = ArcSwapAny::new(Rc::new(42)); std::thread::spawn(move || drop(a)); }
'''),
    'pass_arc_container_to_thread_twin': ('pass', '''
use std::sync::Arc; use arc_swap::ArcSwapAny;
fn main() { let a: ArcSwapAny<Arc<usize>> = ArcSwapAny::new(Arc::new(42)); std::thread::spawn(move || drop(a)); }
'''),
    'fail_cell_container_shared_scope': ('E0277', '''
fn main() { let shared = arc_swap::ArcSwap::from_pointee(std::cell::Cell::new(42)); std::thread::scope(|s| { s.spawn(|| { let _ = &shared; }); }); }
'''),
    'pass_container_shared_scope_twin': ('pass', '''
fn main() { let shared = arc_swap::ArcSwap::from_pointee(42); std::thread::scope(|s| { s.spawn(|| { let _ = &shared; }); }); }
'''),
    'fail_cell_guard_shared_scope': ('E0277', '''
fn main() { let shared = arc_swap::ArcSwap::from_pointee(std::cell::Cell::new(42)); let guard = shared.load(); std::thread::scope(|s| { s.spawn(|| { let _ = &guard; }); }); }
'''),
    'pass_guard_shared_scope_twin': ('pass', '''
fn main() { let shared = arc_swap::ArcSwap::from_pointee(42); let guard = shared.load(); std::thread::scope(|s| { s.spawn(|| { let _ = &guard; }); }); }
'''),
}


def build_and_check(features, want_matrix=True, want_witnesses=True):
    """returns dict(matrix_cells=[..], failed_cells=set, witness={name: (expected, got)}, log=str, wall)"""
    scratch = tempfile.mkdtemp(prefix='asv-wit-')
    try:
        feats = [f for f in features if f in ('weak', 'internal-test-strategies')]
        dep = 'arc-swap = { path = "%s", features = [%s] }' % (os.path.abspath(F.REPO), ', '.join('"%s"' % f for f in feats))
        open(os.path.join(scratch, 'Cargo.toml'), 'w').write('[workspace]\nmembers = ["matrix", "wit"]\nresolver = "2"\n')
        for pkg in ('matrix', 'wit'):
            os.makedirs(os.path.join(scratch, pkg, 'src'))
            open(os.path.join(scratch, pkg, 'Cargo.toml'), 'w').write(
                '[package]\nname = "%s"\nversion = "0.0.0"\nedition = "2021"\n\n[dependencies]\n%s\n' % ('witness' if pkg == 'matrix' else 'wit', dep))
        os.makedirs(os.path.join(scratch, 'wit', 'examples'))
        src, names = gen_matrix(feats) if want_matrix else ('', [])
        open(os.path.join(scratch, 'matrix', 'src', 'lib.rs'), 'w').write(src)
        open(os.path.join(scratch, 'wit', 'src', 'lib.rs'), 'w').write('')
        if want_witnesses:
            for n, (exp, code) in WITNESSES.items():
                open(os.path.join(scratch, 'wit', 'examples', n + '.rs'), 'w').write(code)
        lock = os.path.join(F.REPO, 'Cargo.lock')
        if os.path.exists(lock):
            shutil.copy(lock, os.path.join(scratch, 'Cargo.lock'))
        env = dict(os.environ)
        env['CARGO_TARGET_DIR'] = os.path.join(scratch, 'target')
        env['CARGO_NET_OFFLINE'] = 'true'
        env.pop('RUSTC_WRAPPER', None)
        cmd = ['cargo', '+nightly', 'check', '--offline', '--workspace', '--lib', '--examples', '--message-format=json', '--keep-going']
        p = subprocess.run(cmd, cwd=scratch, env=env, stdout=subprocess.PIPE, stderr=subprocess.PIPE, text=True)
        failed = set()
        wit_err = {n: set() for n in WITNESSES}
        built = set()
        dep_error = None
        for line in p.stdout.splitlines():
            try:
                m = json.loads(line)
            except ValueError:
                continue
            if m.get('reason') == 'compiler-message':
                tgt = m.get('target', {})
                msg = m.get('message', {})
                if msg.get('level') != 'error':
                    continue
                code = (msg.get('code') or {}).get('code')
                text = msg.get('rendered') or msg.get('message') or ''
                if 'lib' in tgt.get('kind', []) and tgt.get('name') == 'witness':
                    for c in re.findall(r'((?:CELL|SELFTEST)\|[^"\n]*)', text):
                        failed.add(c.strip())
                    if not re.search(r'CELL\||SELFTEST\|', text):
                        failed.add('COMPILE-ERROR|' + (msg.get('message') or '')[:200])
                elif 'example' in tgt.get('kind', []):
                    wit_err.setdefault(tgt.get('name'), set()).add(code or 'error')
                elif tgt.get('name') in ('arc_swap', 'arc-swap'):
                    dep_error = (msg.get('message') or '')[:300]
            elif m.get('reason') == 'compiler-artifact':
                tgt = m.get('target', {})
                if 'example' in tgt.get('kind', []):
                    built.add(tgt.get('name'))
                if 'lib' in tgt.get('kind', []) and tgt.get('name') == 'witness':
                    built.add('<lib>')
        return dict(cells=names, failed=failed, wit_err=wit_err, built=built, dep_error=dep_error, rc=p.returncode, stderr=p.stderr[-3000:])
    finally:
        shutil.rmtree(scratch, ignore_errors=True)


_CACHE = {}


def run_cached(cfg_features):
    key = (F.tree_hash(), tuple(sorted(cfg_features)))
    if key not in _CACHE:
        _CACHE[key] = build_and_check(cfg_features)
    return _CACHE[key]


def rule_auto_trait_matrix(fx, col):
    res = run_cached(fx.lib.features)
    if res['dep_error'] or ('<lib>' not in res['built'] and not res['failed']):
        col.fail('ANCHOR', 'AUTO-TRAIT|witness crate', 'the witness crate could not be checked: %s %s' % (res['dep_error'], res['stderr'][-500:]))
        return
    for c in sorted(res['failed']):
        if c.startswith('SELFTEST'):
            col.fail('ANCHOR', 'AUTO-TRAIT|' + c, 'the probe idiom itself gave a wrong answer')
        elif c.startswith('COMPILE-ERROR'):
            col.fail('ANCHOR', 'AUTO-TRAIT|' + c[:120], 'the generated matrix does not compile: %s' % c)
    for name in res['cells']:
        parts = name.split('|')
        ok = name not in res['failed']
        col.add('AUTO-TRAIT', '|'.join(parts[1:]), ok,
                {'sound-send': 'W: Send implies P: Send', 'sound-sync': 'W: Sync implies P: Sync',
                 'sound-sync-needs-send': 'W: Sync implies P: Send (another thread can take the pointer out)',
                 'sound-send-needs-sync': 'W: Send implies P: Sync (W holds a shared reference to the container)',
                 'complete': 'P: Send + Sync implies W: Send + Sync'}.get(parts[-1], parts[-1]))
    col.floor('AUTO-TRAIT', 'matrix cells', len(res['cells']), 150 if 'weak' not in fx.lib.features else 800)


def rule_no_unsafe_auto_impl(fx, col):
    bad = []
    n_unsafe = 0
    for i in fx.lib.impls:
        tp = i.get('trait_pretty') or ''
        if i.get('unsafe'):
            n_unsafe += 1
        if tp.endswith('marker::Send') or tp.endswith('marker::Sync'):
            bad.append('%s for %s (unsafe=%s, polarity=%s)' % (tp, i['self_ty'], i.get('unsafe'), i.get('polarity')))
    col.add('NO-UNSAFE-AUTO-IMPL', 'crate', not bad, 'explicit Send/Sync impls in the crate: %s' % bad)
    col.add('NO-UNSAFE-AUTO-IMPL', 'positive control', n_unsafe >= 3, 'the same impl enumeration finds %d `unsafe impl` items (the RefCnt impls)' % n_unsafe)
    # no field of a public wrapper smuggles a raw pointer with a blanket impl: covered by the matrix; list PhantomData use
    a = fx.lib.adts.get('arc_swap::ArcSwapAny')
    if col.anchor('NO-UNSAFE-AUTO-IMPL', 'struct ArcSwapAny', a is not None):
        ph = [f for f in a['variants'][0]['fields'] if 'PhantomData' in f['ty']]
        col.add('NO-UNSAFE-AUTO-IMPL', 'ArcSwapAny|PhantomData<T>', len(ph) == 1 and ph[0]['ty'].endswith('PhantomData<T>'),
                'the container carries PhantomData<T> so that its auto traits follow the pointer type (%s)' % [f['ty'] for f in ph])


def rule_witnesses(fx, col):
    res = run_cached(fx.lib.features)
    n = 0
    for name, (exp, _) in sorted(WITNESSES.items()):
        n += 1
        errs = res['wit_err'].get(name, set())
        if exp == 'pass':
            ok = name in res['built'] and not errs
            col.add('WITNESS', name, ok, 'must compile (got errors %s)' % sorted(errs) if not ok else 'compiles')
        else:
            ok = exp in errs
            col.add('WITNESS', name, ok, 'must be rejected with %s (got %s)' % (exp, sorted(errs) or 'it compiles'))
    col.floor('WITNESS', 'witness programs', n, 16)


def rule_strategy_sync(fx, col):
    """C19 for a strategy added later: a strategy whose `load` neither goes through the debt protocol (LocalNode::with) nor takes a
    lock hands out the pointer unsynchronised; a container with such a strategy must not be Sync, so the strategy type itself
    has to carry a !Sync marker (a unit struct is Sync)."""
    import re
    from . import util as U
    lib = fx.lib
    n = 0
    for b in lib.bodies:
        if b.name != 'load' or not (b.j.get('impl_trait') or '').endswith('sealed::InnerStrategy'):
            continue
        n += 1
        names = {U.callee_name(t) for _, t in b.calls(include_cleanup=False)}
        protected = 'with' in names or 'read' in names or 'lock' in names or 'attempt' in names or 'fallback' in names
        if not protected:
            for _, _, cb in U.closures_built(lib, b):
                names |= {U.callee_name(t) for _, t in cb.calls(include_cleanup=False)}
            protected = bool(names & {'with', 'read', 'lock', 'attempt', 'fallback'})
        adt = lib.adts.get(b.j.get('impl_self_adt') or '')
        st = b.j.get('impl_self_ty', '')
        if protected:
            col.ok('STRATEGY-SYNC', '%s|load synchronises' % st, 'load goes through the debt protocol or a lock (%s)' % sorted(names & {'with', 'read', 'lock', 'attempt', 'fallback'}))
            continue
        fields = [f['ty'] for v in (adt['variants'] if adt else []) for f in v['fields']]
        not_sync = any(re.search(r'Cell<|\*const |\*mut |Rc<|PhantomData<\*', ty) for ty in fields)
        col.add('STRATEGY-SYNC', '%s|unsynchronised strategy is not Sync' % st, not_sync,
                'load neither uses the debt protocol nor a lock; the strategy type has fields %s: %s' % (fields, 'a !Sync marker' if not_sync else 'nothing makes it !Sync, so ArcSwapAny<Arc<_>, %s> is Sync' % st), b.loc(0))
    col.floor('STRATEGY-SYNC', 'InnerStrategy::load impls', n, 1)

