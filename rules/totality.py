"""Totality rules: PANIC-INV, NODE-SOME, TXN-CLOSED, WITH-TAKE, INDEX-MOD, ENVELOPE-PROVENANCE,
COOLDOWN-OWNED (DESIGN.md §3.4)."""
from . import util as U
from . import ordering as O
from . import progress as P
from .dataflow import forward
from .mir import op_str, place_str

NODE_CELL = ('arc_swap::debt::list::LocalNode', 'node')


# --------------------------------------------------------------------------------------------
# describing values as tokens (used for line-free panic-site signatures)

def tokens(cx, b, op, binops=True):
    out = set()
    thr = lambda tt: [0] if (U.callee_name(tt) in ('expect', 'unwrap') and 'option::Option' in tt['callee'].get('path', '')) else None
    for o in b.origins(op, binops=binops, through_calls=thr):
        if o[0] == 'call':
            t = b.term(o[1])
            nm = U.callee_name(t)
            if U.is_atomic_callee(t['callee']):
                s = U.Site(b, o[1], t)
                out.add('atomic:%s.%s' % (s.cls, s.op))
            elif nm == 'get' and 'cell::Cell' in t['callee'].get('path', ''):
                r, f = b.ref_path(t['args'][0])
                ff = [x for x in f if x['k'] == 'field']
                if ff:
                    out.add('cell:%s.%s' % (U.short(ff[-1]['adt']), ff[-1]['name']))
                else:
                    out.add('cell:local')
            elif nm == 'take' and 'cell::Cell' in t['callee'].get('path', ''):
                out.add('call:Cell::take')
            else:
                out.add('call:%s' % nm)
        elif o[0] == 'const':
            out.add('const:%s' % o[1])
        elif o[0] == 'arg':
            out.add('arg')
        elif o[0] == 'static':
            out.add('static:%s' % o[1].split('::')[-1])
        elif o[0] == 'binop':
            rv = b.stmts(o[1])[o[2]]['rv']
            out.add('binop:%s' % rv['op'])
        else:
            out.add(o[0])
    # binops seen on the way
    return out


def binops_on_path(b, op, depth=0, seen=None):
    """names of binary operators applied on the way from origins to `op`"""
    out = set()
    seen = seen or set()
    if op is None or op['k'] not in ('copy', 'move') or depth > 12:
        return out
    l = op['place']['local']
    if l in seen:
        return out
    seen.add(l)
    for (bb, i, kind, rv, proj) in b.assigns().get(l, []):
        if kind != 'stmt':
            continue
        if rv['k'] == 'binop':
            out.add(rv['op'])
            out |= binops_on_path(b, rv['l'], depth + 1, seen) | binops_on_path(b, rv['r'], depth + 1, seen)
        elif rv['k'] in ('use', 'cast'):
            out |= binops_on_path(b, rv['op'], depth + 1, seen)
        elif rv['k'] in ('ref',):
            out |= binops_on_path(b, {'k': 'copy', 'place': {'local': rv['place']['local'], 'proj': []}}, depth + 1, seen)
        elif rv['k'] == 'aggregate':
            for f in rv['fields']:
                out |= binops_on_path(b, f, depth + 1, seen)
    return out


def site_signature(cx, b, bb, kind, what, macros):
    """(macro, token set) of a panic-capable site; the tokens describe the guarding condition or
    the receiver, never a line number"""
    user_macros = [m for m in macros if not m.startswith('$crate') and not m.startswith('Desugaring')]
    macro = user_macros[-1] if user_macros else ''
    toks = set()
    if kind == 'call' and what.startswith('std::option::Option') or what.startswith('std::result::Result'):
        t = b.term(bb)
        toks = tokens(cx, b, t['args'][0])
    elif kind == 'assert':
        t = b.term(bb)
        toks = tokens(cx, b, t['cond'])
        toks |= {'op:' + x for x in binops_on_path(b, t['cond'])}
    else:
        # guarded by the innermost dominating branch
        br = U.dominating_branches(b, bb)
        if br:
            # innermost = the one whose switch block is dominated by all others
            inner = br[0]
            for x in br:
                if b.dominates(inner[0], x[0]):
                    inner = x
            t = b.term(inner[0])
            toks = tokens(cx, b, t['discr'])
            toks |= {'op:' + x for x in binops_on_path(b, t['discr'])}
    return macro, toks


# discharge table: (function-name suffix, kind/callee substring, macro, required tokens, discharging rule, reason)
DISCHARGES = [
    ('LocalNode::', 'Option::<T>::expect', '', {'cell:LocalNode.node'}, 'NODE-SOME',
     'the thread\'s node handle is Some whenever a LocalNode method runs (typestate)'),
    ('LocalNode::', 'assert_failed', 'debug_assert_eq', {'atomic:in_use.load'}, 'NODE-SOME+INUSE-FSM',
     'the attached node is owned (USED) by this thread: only the owner moves it out of USED (INUSE-FSM) and detaches at the same time (DETACH)'),
    ('LocalNode::with::{closure', 'Option::<T>::unwrap', '', {'call:Cell::take'}, 'WITH-TAKE',
     'the FnOnce is stored Some in the same body and each closure that takes it runs at most once, the two being mutually exclusive'),
    ('Node::start_cooldown', 'assert_failed', 'assert_eq', {'atomic:in_use.swap'}, 'COOLDOWN-OWNED',
     'start_cooldown is only called on the thread\'s attached node, which is then detached'),
    ('helping::Slots::help', 'assert_failed', 'assert_eq', {'atomic:space_offer.load', 'op:BitAnd'}, 'ENVELOPE-PROVENANCE',
     'envelope addresses are addresses of Handover values, whose alignment leaves the tag bits clear (TAG-TABLE: align >= TAG_MASK+1)'),
    ('helping::Slots::help', 'panic_fmt', 'unreachable', set(), 'TAG-TABLE',
     'the match on control & TAG_MASK lists exactly the three tags ever written'),
    ('helping::Slots::help', 'panicking::panic', 'debug_assert', {'call:eq'}, 'TXN-CLOSED',
     'no_std spelling of the same debug_assert!'),
    ('helping::Slots::help', 'begin_panic', 'debug_assert', {'call:eq'}, 'TXN-CLOSED',
     'a writer finds GEN_TAG in its own control only inside its own transaction, and no call happens inside a transaction'),
    ('helping::Slots::help', 'assert_failed', 'debug_assert_ne', {'arg', 'op:Eq'}, 'TXN-CLOSED',
     'the same "refusing to help myself" assertion spelled as an inequality of the two slot addresses (`self as *const _ != who as *const _`)'),
    ('helping::Slots::help', 'assert_failed', 'debug_assert_eq', {'atomic:control.load'}, 'TXN-CLOSED',
     'own control is IDLE outside a transaction'),
    ('helping::Slots::get_debt', 'assert_failed', 'debug_assert_eq', {'atomic:control.swap'}, 'TXN-CLOSED',
     'own control is IDLE when a new transaction starts'),
    ('helping::Slots::get_debt', 'assert_failed', 'debug_assert_eq', {'op:BitAnd', 'call:wrapping_add'}, 'TAG-TABLE',
     'the generation advances in multiples of TAG_MASK+1 from 0'),
    ('helping::Slots::confirm', 'assert_failed', 'debug_assert_eq', {'atomic:debt.swap'}, 'SLOT-CLOSED',
     'the helping slot is paid back before the fallback returns, so it is empty when the next transaction confirms'),
    ('helping::Slots::confirm', 'assert_failed', 'debug_assert_eq', {'atomic:control.swap', 'op:BitAnd'}, 'TAG-TABLE',
     'a control value that is not our generation is a replacement (only three shapes are ever written)'),
    ('fast::Slots::get_debt', 'assert_failed', 'debug_assert_eq', {'atomic:debt.swap'}, 'CLAIM-EMPTY',
     'the swap is control dependent on having read NONE from the same slot, and only the owner fills slots'),
    ('fast::Slots::get_debt', 'assert', '', set(), 'INDEX-MOD',
     'index = (i + offset) % len with len the non-zero constant array length; offset is only ever written as i + 1 with i < len'),
    ('helping::Slots::help', 'assert:misaligned_ptr', '', {'atomic:space_offer.load'}, 'ENVELOPE-PROVENANCE', 'debug-build pointer check on an envelope address'),
    ('helping::Slots::help', 'assert:null_ptr', '', {'atomic:space_offer.load'}, 'ENVELOPE-PROVENANCE', 'debug-build pointer check on an envelope address'),
    ('helping::Slots::confirm', 'assert:misaligned_ptr', '', {'atomic:control.swap'}, 'ENVELOPE-PROVENANCE', 'debug-build pointer check on an envelope address'),
    ('helping::Slots::confirm', 'assert:null_ptr', '', {'atomic:control.swap'}, 'ENVELOPE-PROVENANCE', 'debug-build pointer check on an envelope address'),
]


def panic_sites(fx, strategies=('default', 'fill')):
    g = P.graph(fx)
    roots = P.root_groups(fx, strategies, ('r', 'g', 'w', 'c', 'a', 'k', 'f', 's'))
    seen, parent, _ = g.reach(list(roots.values()))
    sites = {}
    lib = fx.lib
    done = set()
    for i in sorted(seen):
        inst = g.inst[i]
        if not inst.get('walked'):
            continue
        b = g.body_of.get(i)
        if b is None:
            # compiler generated shim: use the instantiated lists
            for a in inst.get('asserts', []):
                if not a['cleanup']:
                    sites.setdefault((g.fname(i), 'assert', a['msg'], a['bb']), (None, tuple(a['line']['macros']), i))
            continue
        if b.crate is not lib or b.key in lib.inlined_helpers or b.key in done:
            continue
        done.add(b.key)
        # scan the (helper-inlined) local body: calls into panic entry points and compiler checks
        for bb in range(b.n):
            if b.is_cleanup(bb):
                continue
            t = b.term(bb)
            if t['k'] == 'call':
                c = t['callee']
                if c.get('krate') in ('core', 'std', 'alloc') and P.leaf_class({'path': c.get('path') or '', 'kind': 'item'}) == 'panic':
                    sites.setdefault((b.fname, 'call', c.get('path'), bb), (b, tuple(t['span']['macros']), i))
            elif t['k'] == 'assert':
                sites.setdefault((b.fname, 'assert', t['msg'], bb), (b, tuple(t['span']['macros']), i))
    return g, parent, sites, len(seen), len(roots)


def rule_panic_inv(fx, col):
    cx = O.ctx(fx)
    # all three strategies (the lock based reference strategy has no panic-capable site of its own since fix 9fce248)
    g, parent, sites, n_inst, n_roots = panic_sites(fx, strategies=('default', 'fill', 'rwlock'))
    if not col.anchor('PANIC-INV', 'API roots', n_roots >= 20, 'found %d' % n_roots):
        return set()
    used = set()
    per_fn = {}
    for (fname, kind, what, bb), (b, macros, iid) in sorted(sites.items(), key=lambda x: (x[0][0], x[0][1], x[0][2], x[0][3])):
        if b is None:
            col.fail('PANIC-INV', '%s|%s %s' % (fname, kind, what), 'panic-capable site in a compiler generated shim', path=g.chain(parent, iid))
            continue
        if b.crate is not fx.lib:
            continue
        macro, toks = site_signature(cx, b, bb, kind, what, macros)
        match = None
        for (fn_sfx, what_sub, mac, need, rule, reason) in DISCHARGES:
            if fn_sfx not in fname:
                continue
            w = what if kind == 'call' else ('assert:' + what)
            if what_sub not in w and not (what_sub == 'assert' and kind == 'assert'):
                continue
            if mac != macro and not (mac == '' and kind == 'assert'):
                continue
            if not need <= toks:
                continue
            match = (rule, reason)
            break
        if match is None:
            # the same assertion in another function (code moved into a helper / a helper merged into its caller): an invariant is
            # named by WHAT is asserted (the values compared), and the discharging rule is checked crate-wide
            cands = []
            for (fn_sfx, what_sub, mac, need, rule, reason) in DISCHARGES:
                w = what if kind == 'call' else ('assert:' + what)
                if need and what_sub in w and mac == macro and need <= toks:
                    cands.append((rule, reason + ' (same assertion as in %s)' % fn_sfx, fn_sfx))
                # `debug_assert!(a == b)` for `debug_assert_eq!(a, b)` (the comparison moved into a predicate helper)
                elif need and what_sub == 'assert_failed' and mac in ('debug_assert_eq', 'assert_eq') and macro in (mac[:-3], 'panic', 'assert', 'debug_assert') \
                        and kind == 'call' and what.split('::')[-1] in ('panic', 'panic_fmt', 'begin_panic') and (need | {'op:Eq'}) <= toks:
                    cands.append((rule, reason + ' (same assertion as in %s, spelled assert!(a == b))' % fn_sfx, fn_sfx))
            # the same function first (two functions may assert about the same location for different reasons)
            here = [c for c in cands if len(c) > 2 and c[2] in fname] or [c for c in cands if len(c) == 2]
            if len({c[0] for c in here}) == 1:
                match = here[0][:2]
            elif len({c[0] for c in cands}) == 1:
                match = cands[0][:2]
        n = per_fn.get((fname, kind, what, macro), 0)
        per_fn[(fname, kind, what, macro)] = n + 1
        key = '%s|%s %s%s|%s' % (fname, kind, what.split('::')[-1], (' in ' + macro + '!') if macro else '', ','.join(sorted(toks)) or '-')
        if match:
            used.add(match[0])
            col.ok('PANIC-INV', key, 'discharged by %s: %s' % match, b.loc(bb))
        else:
            col.fail('PANIC-INV', key, 'reachable panic site without a discharge (C13 forbids new panics on these paths); tokens %s' % sorted(toks),
                     b.loc(bb), path=g.chain(parent, iid))
    rel = not fx.lib.debug_assertions
    col.floor('PANIC-INV', 'panic-capable sites', len(sites), 9 if rel else 20)
    return used


# --------------------------------------------------------------------------------------------
# NODE-SOME typestate

SOME, NONE, TOP = 'Some', 'None', 'Top'


def _join(a, b):
    return a if a == b else TOP


def _is_node_cell(b, op):
    r, f = b.ref_path(op)
    ff = [x for x in f if x['k'] == 'field']
    return bool(ff) and (ff[-1]['adt'], ff[-1]['name']) == NODE_CELL


def _option_state(b, op):
    """abstract Option-ness of an operand: Some / None / Top"""
    d = U.def_rvalue(b, op)
    if d and d[0] == 'rv' and d[3]['k'] == 'aggregate' and d[3].get('adt') == 'core::option::Option':
        return SOME if d[3]['variant'] == 'Some' else NONE
    return TOP


def node_state_analysis(fx, b, init, summaries):
    """forward dataflow of the abstract state of LocalNode.node in body b.
    Returns (in_state, before_term)."""
    lib = fx.lib

    def stmt_fn(st, bb, i, s):
        return st

    def term_fn(st, bb, t):
        outs = {}
        succs = b.term_succs(bb, True)
        if t['k'] == 'call':
            nm = U.callee_name(t)
            path = t['callee'].get('path', '')
            new = st
            if 'cell::Cell' in path and t['args'] and _is_node_cell(b, t['args'][0]):
                if nm == 'take':
                    new = NONE
                elif nm in ('set', 'replace'):
                    new = _option_state(b, t['args'][1])
            else:
                ck = t['callee'].get('resolved') or t['callee'].get('key')
                cb = lib.by_key.get(ck)
                if cb is not None and cb.j.get('impl_self_adt') == NODE_CELL[0] and cb.key in summaries:
                    new = summaries[cb.key](st)
                elif st == NONE:
                    # an unknown call may nest LocalNode::with, which re-attaches a node
                    new = TOP
            for s in succs:
                outs[s] = new if s == t.get('target') else st
            return outs
        if t['k'] == 'switch':
            # refine on `Cell::get(&node).is_none()/is_some()`
            d = U.def_rvalue(b, t['discr'])
            ref = None
            if d and d[0] == 'call' and U.callee_name(d[2]) in ('is_none', 'is_some'):
                org = b.origins(d[2]['args'][0])
                for o in org:
                    if o[0] == 'call':
                        tt = b.term(o[1])
                        if U.callee_name(tt) == 'get' and 'cell::Cell' in tt['callee'].get('path', '') and _is_node_cell(b, tt['args'][0]):
                            ref = U.callee_name(d[2])
            if d and d[0] == 'rv' and d[3]['k'] == 'discr':
                # `if let Some(x) = self.node.take()/get()`
                pl = d[3]['place']
                org = b.origins(pl['local'])
                for o in org:
                    if o[0] == 'call':
                        tt = b.term(o[1])
                        if U.callee_name(tt) == 'get' and 'cell::Cell' in tt['callee'].get('path', '') and _is_node_cell(b, tt['args'][0]):
                            ref = 'discr'
            for s in succs:
                v = U.switch_edge_value(b, bb, s)
                ns = st
                if ref in ('is_none', 'is_some') and v is not None:
                    truth = (v == 'otherwise') if [x for x, _ in t['targets']] == [0] else (v == [1])
                    is_none = truth if ref == 'is_none' else (not truth)
                    ns = NONE if is_none else SOME
                elif ref == 'discr' and v is not None:
                    if v == [1]:
                        ns = SOME
                    elif v == [0]:
                        ns = NONE
                outs[s] = ns
            return outs
        for s in succs:
            outs[s] = st
        return outs

    return forward(b, init, stmt_fn, term_fn, _join)


def rule_node_some(fx, col):
    lib = fx.lib
    cx = O.ctx(fx)
    methods = [b for b in lib.bodies if b.j.get('impl_self_adt') == NODE_CELL[0] and b.kind == 'AssocFn' and not b.j.get('impl_trait')]
    if not col.anchor('NODE-SOME', 'LocalNode methods', len(methods) >= 4):
        return
    # summaries: exit state as a function of entry state; iterate to a fixpoint from the optimistic
    # assumption (identity), as the call graph among methods is acyclic this converges in 2 rounds
    summ = {}
    self_methods = [b for b in methods if b.arg_count >= 1 and 'LocalNode' in b.local_ty(1)]
    for b in self_methods:
        summ[b.key] = lambda s: s
    results = {}
    for _ in range(3):
        for b in self_methods:
            res = {}
            for entry in (SOME, NONE):
                ins, bt = node_state_analysis(fx, b, entry, summ)
                exits = [ins[x] if not b.stmts(x) else bt[x] for x in range(b.n) if b.term(x)['k'] == 'return' and x in bt]
                ex = None
                for e in exits:
                    ex = e if ex is None else _join(ex, e)
                res[entry] = (ex if ex is not None else entry, ins, bt)
            results[b.key] = res
            summ[b.key] = (lambda r: (lambda s: r[s][0] if s in r else TOP))(res)
    n_sites = 0
    for b in self_methods:
        res = results[b.key][SOME]
        exit_state, ins, bt = res
        col.add('NODE-SOME', '%s|returns attached' % b.fname, exit_state == SOME,
                'given an attached node on entry the method returns with the handle %s' % exit_state, '%s:%d' % (b.file.split('/repo/')[-1], b.line))
        for bb, t in b.calls():
            if U.callee_name(t) in ('expect', 'unwrap') and 'option::Option' in t['callee'].get('path', ''):
                toks = tokens(cx, b, t['args'][0])
                if 'cell:LocalNode.node' in toks:
                    n_sites += 1
                    st = bt.get(bb)
                    col.add('NODE-SOME', '%s|expect#%d' % (b.fname, _nth(b, bb, ('expect', 'unwrap'))), st == SOME,
                            'state of LocalNode.node at the expect is %s' % st, b.loc(bb))
    col.floor('NODE-SOME', 'expect sites on the node handle', n_sites, 4)
    # `with` establishes Some before running the user closure
    n_with = 0
    for b in lib.bodies:
        if not (b.fname.startswith('arc_swap::debt::list::LocalNode::with')):
            continue
        ins, bt = node_state_analysis(fx, b, TOP, summ)
        # fresh LocalNode aggregates: Cell::new(Some(..))
        fresh = None
        for bb in range(b.n):
            for i, st in enumerate(b.stmts(bb)):
                if st['k'] == 'assign' and st['rv']['k'] == 'aggregate' and st['rv'].get('adt') == NODE_CELL[0]:
                    idx = st['rv']['field_names'].index('node')
                    d = U.def_rvalue(b, st['rv']['fields'][idx])
                    if d and d[0] == 'call' and U.callee_name(d[2]) == 'new':
                        fresh = (_option_state(b, d[2]['args'][0]), bb)
        for bb, t in b.calls():
            c = t['callee']
            if c.get('name') in ('call_once', 'call', 'call_mut') and c.get('self_is_param'):
                n_with += 1
                st = bt.get(bb)
                if fresh and fresh[0] == SOME and b.dominates(fresh[1], bb):
                    # the closure runs on a freshly built LocalNode whose handle is Some
                    arg_org = b.origins(t['args'][1]) if len(t['args']) > 1 else set()
                    st = SOME if st in (TOP, None) else st
                col.add('NODE-SOME', '%s|user closure runs attached' % b.fname, st == SOME,
                        'state of LocalNode.node when the closure is invoked: %s' % st, b.loc(bb))
    col.floor('NODE-SOME', 'with() call sites of the user closure', n_with, 1 if fx.has_feature('experimental-thread-local') else 2)
    # who-writes: LocalNode.node is only mutated by LocalNode's own code
    for b in lib.bodies:
        for bb, t in b.calls():
            if 'cell::Cell' in t['callee'].get('path', '') and U.callee_name(t) in ('set', 'take', 'replace', 'swap', 'get_mut', 'as_ptr') and t['args'] and _is_node_cell(b, t['args'][0]):
                ok = b.fname.startswith('arc_swap::debt::list::LocalNode::')
                col.add('NODE-SOME', '%s|writes node handle' % b.fname, ok, 'LocalNode.node mutated by %s' % U.callee_name(t), b.loc(bb))


def _nth(b, bb, names):
    k = 0
    for x, t in b.calls():
        if U.callee_name(t) in names:
            if x == bb:
                return k
            k += 1
    return k


# --------------------------------------------------------------------------------------------
# WITH-TAKE

def rule_with_take(fx, col):
    lib = fx.lib
    w = [b for b in lib.bodies if b.fname == 'arc_swap::debt::list::LocalNode::with']
    if not col.anchor('WITH-TAKE', 'LocalNode::with', len(w) == 1):
        return
    b = w[0]
    if fx.has_feature('experimental-thread-local'):
        col.ok('WITH-TAKE', 'not applicable', 'the experimental-thread-local variant calls the closure directly')
        return
    # the Cell<Option<F>> is created from Some(f) in this body
    cell = None
    for bb, t in b.calls():
        if U.callee_name(t) == 'new' and 'cell::Cell' in t['callee'].get('path', ''):
            if P_option_some(b, t['args'][0]):
                cell = (bb, t['dest']['local'])
    col.add('WITH-TAKE', 'with|cell created Some', cell is not None, 'Cell::new(Some(f)) found: %s' % (cell is not None))
    # two closures capture a reference to it; each is handed to a different std callback
    clos = U.closures_built(lib, b)
    sinks = set()
    tw = []
    for bb, t in b.calls():
        nm = U.callee_name(t)
        if nm in ('try_with', 'unwrap_or_else'):
            sinks.add(nm)
        if nm == 'try_with':
            tw.append(bb)
    is_take = lambda t: U.callee_name(t) == 'take' and 'cell::Cell' in t['callee'].get('path', '')
    own = [(bb, t) for bb, t in b.calls(include_cleanup=False) if is_take(t)]
    if len(clos) == 2 and not own:
        # the shape of the library: two closures, each handed to a different std callback
        col.ok('WITH-TAKE', 'with|two closures', 'closures built: %s' % [c.fname for _, _, c in clos])
        col.add('WITH-TAKE', 'with|exclusive callbacks', sinks == {'try_with', 'unwrap_or_else'},
                'the body closure goes to LocalKey::try_with and the fallback to Result::unwrap_or_else on its result (mutually exclusive, each FnOnce): %s' % sorted(sinks))
    else:
        # the fallback written as a `match` on what try_with returned: the FnOnce is taken in the closure handed to try_with and,
        # in this body, only where try_with answered Err (LocalKey::try_with answers Err without having run the closure)
        col.add('WITH-TAKE', 'with|two closures', len(clos) >= 1 and len(tw) == 1, 'closures built: %s; try_with calls: %d' % ([c.fname for _, _, c in clos], len(tw)))
        ok = bool(own) and len(tw) == 1
        for bb, t in own:
            in_loop = any(bb in bl for h, bl, tl in b.loops())
            on_err = any(f[0] == 'variant' and f[2] == 1 and ('call', tw[0]) in b.origins(f[1]) for f in U.dominating_facts(b, bb)) if tw else False
            ok = ok and on_err and not in_loop
        col.add('WITH-TAKE', 'with|exclusive callbacks', ok,
                'the FnOnce is taken in this body only on the Err outcome of LocalKey::try_with (the closure did not run), once: %s' % [b.loc(bb) for bb, _ in own])
    for _, _, cb in clos:
        takes = [(bb, t) for bb, t in cb.calls() if is_take(t)]
        in_loop = any(any(bb in bl for h, bl, tl in cb.loops()) for bb, _ in takes)
        col.add('WITH-TAKE', '%s|takes once' % cb.fname, len(takes) == 1 and not in_loop, '%d take() call(s), in loop: %s' % (len(takes), in_loop))


def P_option_some(b, op):
    return _option_state(b, op) == SOME


# --------------------------------------------------------------------------------------------
# INDEX-MOD

def rule_panic_new(fx, col):
    """PANIC-INV walks the instantiated call graph from the known API roots. A function added later is not under any root; whatever
    can panic in it (expect / unwrap / panic! / assert / unreachable) is reported here, fail closed: C13 allows no new panic."""
    g = P.graph(fx)
    roots = P.root_groups(fx, ('default', 'fill', 'rwlock'), ('r', 'g', 'w', 'c', 'a', 'k', 'f', 's', 'x'))
    seen, parent, _ = g.reach(list(roots.values()))
    walked = {g.body_of[i].key for i in seen if g.body_of.get(i) is not None}
    PAN = ('expect', 'unwrap', 'panic', 'panic_fmt', 'begin_panic', 'assert_failed', 'unreachable', 'panic_display', 'unwrap_failed', 'expect_failed', 'panic_explicit')
    n = 0
    for b in fx.lib.bodies:
        if b.key in walked or '::tests' in b.fname:
            continue
        n += 1
        for bb, t in b.calls(include_cleanup=False):
            if U.callee_name(t) in PAN and t['callee'].get('krate') in ('core', 'std', 'alloc'):
                col.fail('PANIC-NEW', '%s|%s' % (b.fname, U.callee_name(t)), 'panic-capable call in a function no API root reaches (a new operation?): nothing discharges it', b.loc(bb))
        for bb in range(b.n):
            t = b.term(bb)
            if t['k'] == 'assert' and not b.is_cleanup(bb) and not (t.get('span') or {}).get('macros'):
                pass  # compiler-inserted arithmetic / bounds checks in unreached helpers are not judged here
    col.ok('PANIC-NEW', 'scan', 'functions outside the root walk scanned: %d' % n)


def rule_writers_raii(fx, col):
    """The count of writers poking into a node is moved only by the reservation object: incremented where a NodeReservation is
    produced, decremented in its Drop. A hand-written `fetch_add .. call .. fetch_sub` around a call that can run user code
    (help -> replacement() / drop of a rejected replacement) loses the decrement on unwinding: the node then stays in cooldown
    for ever."""
    cx = O.ctx(fx)
    n = 0
    for s_ in cx.sites:
        if s_.cls != 'active_writers' or not s_.op.startswith('fetch_'):
            continue
        n += 1
        b = s_.body
        if s_.op == 'fetch_add':
            # ... or, when reserve_writer was written out by hand, where a NodeReservation is built right after it
            built = [bb for bb in range(b.n) for st in b.stmts(bb) if st['k'] == 'assign' and st['rv']['k'] == 'aggregate' and 'NodeReservation' in (st['rv'].get('adt') or '')]
            nxt = b.term(s_.bb).get('target')
            ok = 'NodeReservation' in b.local_ty(0) or (nxt is not None and nxt in built)
            why = 'incremented where the reservation object is produced (%s -> %s; reservation built in the next block: %s)' % (b.fname, b.local_ty(0), nxt in built if nxt is not None else False)
        else:
            ok = b.name == 'drop' and 'NodeReservation' in (b.j.get('impl_self_ty') or '')
            why = 'decremented in Drop for NodeReservation (here: %s)' % b.fname
        col.add('WRITERS-RAII', '%s|active_writers.%s' % (b.fname, s_.op), ok, why, s_.loc)
    col.floor('WRITERS-RAII', 'RMWs on active_writers', n, 2)


def rule_index_mod(fx, col):
    lib = fx.lib
    bs = [b for b in lib.bodies if b.fname == 'arc_swap::debt::fast::Slots::get_debt']
    if not col.anchor('INDEX-MOD', 'fast::Slots::get_debt', len(bs) == 1):
        return
    b = bs[0]
    cx = O.ctx(fx)
    n = 0
    # every Index projection uses a local defined as Rem(_, len) with len = length of the indexed array
    idx_locals = set()
    for bb in range(b.n):
        for st in b.stmts(bb):
            if st['k'] != 'assign':
                continue
            for pl in O._places_of_rv(st['rv']):
                for e in pl['proj']:
                    if e['k'] == 'index':
                        idx_locals.add(e['local'])
    for l in sorted(idx_locals):
        n += 1
        defs = [d for d in b.assigns().get(l, []) if d[2] == 'stmt']
        ok = bool(defs)
        why = []
        def reduced(rv, depth=0):
            """every value this rvalue can take was produced by `_ % len` (copies of a variable with several assignments
            are followed into each assignment)"""
            if depth > 6:
                return False
            if rv['k'] == 'binop' and rv['op'] == 'Rem':
                lt = tokens(cx, b, rv['r'])
                why.append('index = _ %% %s' % sorted(lt))
                return 'call:len' in lt
            if rv['k'] == 'use' and rv['op'].get('k') in ('copy', 'move') and not rv['op']['place']['proj']:
                ds = [d for d in b.assigns().get(rv['op']['place']['local'], []) if not d[4]]
                if ds and all(d[2] == 'stmt' for d in ds):
                    return all(reduced(d[3], depth + 1) for d in ds)
            why.append('index defined by %s' % rv['k'])
            return False
        for (bb, i, kind, rv, proj) in defs:
            ok &= reduced(rv)
        col.add('INDEX-MOD', 'get_debt|index _%d' % l, ok, '; '.join(why))
    col.floor('INDEX-MOD', 'indexed accesses', n, 1)
    # len is the length of a fixed-size, non-empty array
    cnt = cx.SLOT_CNT
    col.add('INDEX-MOD', 'get_debt|len non-zero', bool(cnt) and cnt > 0, 'DEBT_SLOT_CNT = %s' % cnt)
    adt = lib.adts.get('arc_swap::debt::fast::Slots')
    if col.anchor('INDEX-MOD', 'struct fast::Slots', adt is not None):
        f = adt['variants'][0]['fields'][0]
        col.add('INDEX-MOD', 'fast::Slots|array length', f.get('array_len') == cnt, 'fast::Slots.0 is [Debt; %s]' % f.get('array_len'))
    # offset: every write to fast::Local.offset is `i + 1` where i is an index local (so offset <= len)
    n_w = 0
    for bb2 in lib.bodies:
        for bb, t in bb2.calls():
            if U.callee_name(t) in ('set', 'replace') and 'cell::Cell' in t['callee'].get('path', ''):
                r, f = bb2.ref_path(t['args'][0])
                ff = [x for x in f if x['k'] == 'field']
                if ff and ff[-1]['adt'] == 'arc_swap::debt::fast::Local' and ff[-1]['name'] == 'offset':
                    n_w += 1
                    d = U.def_rvalue(bb2, t['args'][1])
                    good = False
                    if d and d[0] == 'rv' and d[3]['k'] == 'use':
                        d = U.def_rvalue(bb2, d[3]['op'])
                    # `_x = Add(i, 1)` appears as a checked add: (AddWithOverflow) tuple .0
                    org = bb2.origins(t['args'][1], binops=False)
                    for o in org:
                        if o[0] == 'binop':
                            rv = bb2.stmts(o[1])[o[2]]['rv']
                            if rv['op'] in ('Add', 'AddWithOverflow', 'AddUnchecked') and U.int_of(bb2, rv['r']) == 1:
                                lo = rv['l']
                                if lo['k'] in ('copy', 'move') and (lo['place']['local'] in idx_locals or
                                                                    any(o2[0] == 'binop' and bb2.stmts(o2[1])[o2[2]]['rv']['op'] == 'Rem' for o2 in bb2.origins(lo))):
                                    good = True
                    col.add('INDEX-MOD', '%s|offset write' % bb2.fname, good and bb2 is b, 'offset := (index) + 1, so offset <= len and i + offset cannot overflow', bb2.loc(bb))
    col.floor('INDEX-MOD', 'writes of fast::Local.offset', n_w, 1)


# --------------------------------------------------------------------------------------------
# ENVELOPE-PROVENANCE: every value stored into space_offer is an envelope address

def rule_envelope_provenance(fx, col):
    cx = O.ctx(fx)
    n = 0
    for s in cx.sites:
        if s.cls != 'space_offer':
            continue
        b = s.body
        if s.op == 'store':
            n += 1
            toks = tokens(cx, b, s.arg(1))
            rest = {t for t in toks if not (t.startswith('const:') or t == 'static:TAG_MASK' or t.startswith('binop:'))}
            ok = bool(rest) and rest <= {'atomic:space_offer.load', 'atomic:control.swap'}
            if not ok:
                # init() spelled with a store: the value is the address of the slot's own handover field
                r_, f_ = b.ref_path(s.arg(1))
                ff = [x for x in f_ if x['k'] == 'field']
                if ff and ff[-1]['adt'] == 'arc_swap::debt::helping::Slots' and ff[-1]['name'] == 'handover' and r_ == s.root:
                    ok = True
                    toks = {'field:helping::Slots.handover (own)'}
            col.add('ENVELOPE-PROVENANCE', s.key(), bool(ok), 'value stored into space_offer derives from %s' % sorted(toks), s.loc)
        elif s.op == 'get_mut':
            n += 1
            # init(): *get_mut() = &mut self.handover
            d = s.term['dest']['local']
            good = False
            for bb in range(b.n):
                for st in b.stmts(bb):
                    if st['k'] == 'assign' and st['dest']['local'] == d and any(e['k'] == 'deref' for e in st['dest']['proj']):
                        r, f = b.ref_path(st['rv']['op']) if st['rv']['k'] in ('use', 'cast') else (None, [])
                        ff = [x for x in f if x['k'] == 'field']
                        good = bool(ff) and ff[-1]['adt'] == 'arc_swap::debt::helping::Slots' and ff[-1]['name'] == 'handover'
            col.add('ENVELOPE-PROVENANCE', s.key(), good, 'init() points space_offer at the slot\'s own handover', s.loc)
        elif s.op in ('load',):
            pass
        elif s.op in U.WRITE_OPS:
            col.fail('ENVELOPE-PROVENANCE', s.key(), 'unexpected write %s to space_offer' % s.op, s.loc)
    col.floor('ENVELOPE-PROVENANCE', 'space_offer writers', n, 3)
    # the envelope address decoded from control is `control & !TAG_MASK`
    # init is called on every fresh node before publication: see REUSE-FIRST


# --------------------------------------------------------------------------------------------
# COOLDOWN-OWNED / DETACH

def rule_cooldown_owned(fx, col):
    lib = fx.lib
    n = 0
    for b in lib.bodies:
        for bb, t in b.calls():
            ck = t['callee'].get('resolved') or t['callee'].get('key')
            cb = lib.by_key.get(ck)
            if cb is None or cb.fname != 'arc_swap::debt::list::Node::start_cooldown':
                continue
            n += 1
            toks = set()
            cx = O.ctx(fx)
            recv = tokens(cx, b, t['args'][0])
            owned = 'cell:LocalNode.node' in recv or 'call:Cell::take' in recv or 'call:take' in recv
            # after the call, the handle is detached or replaced before the function returns
            if b.fname.endswith('::drop'):
                detached = True
                why = 'LocalNode is being dropped'
            else:
                ins, bt = node_state_analysis(fx, b, SOME, {})
                st = bt.get(bb)
                # either the handle was taken before (state None at the call) or it is set afterwards on every path
                sets = [x for x, tt in b.calls() if 'cell::Cell' in tt['callee'].get('path', '') and U.callee_name(tt) in ('set', 'take', 'replace') and _is_node_cell(b, tt['args'][0])]
                detached = st == NONE or any(b.postdominates(x, bb) for x in sets)
                why = 'state at call %s; re-attach/detach ops at %s' % (st, [b.loc(x) for x in sets])
            # no use of the cooled node after the call
            thr = lambda tt: [0] if (U.callee_name(tt) in ('expect', 'unwrap') and 'option::Option' in tt['callee'].get('path', '')) else None
            src = {o for o in b.origins(t['args'][0], through_calls=thr) if o[0] == 'call'}
            aliases = {l for l in range(len(b.locals)) if src and {o for o in b.origins(l, through_calls=thr) if o[0] == 'call'} == src
                       and all(o[0] == 'call' for o in b.origins(l, through_calls=thr))}
            later = b.reach_from(t['target'], unwind=False) if t.get('target') is not None else set()
            used_after = sorted({b.loc(x) for x in later for l in aliases if U.block_uses_local(b, x, l)})
            col.add('COOLDOWN-OWNED', '%s|start_cooldown' % b.fname, owned and detached and not used_after,
                    'receiver derives from the thread\'s own handle (%s); %s; uses of the cooled node afterwards: %s' % (sorted(recv), why, used_after), b.loc(bb))
    col.floor('COOLDOWN-OWNED', 'start_cooldown call sites', n, 2)
    # the owner brings its view of active_writers up to date (an RMW on it) before releasing the flag: check_cooldown reads
    # active_writers Relaxed after acquiring in_use, so the Release on in_use must carry a current value
    cx = O.ctx(fx)
    for s in cx.sites:
        if s.cls == 'in_use' and s.op == 'swap' and U.int_of(s.body, s.arg(1)) == cx.NODE_COOLDOWN:
            b = s.body
            rmw = []
            for bb, t, cb in cx.local_calls(b):
                if cx.summ.has_site(cb.key, lambda x: x.cls == 'active_writers' and x.op.startswith('fetch_')) and b.dominates(bb, s.bb) and bb != s.bb:
                    rmw.append(bb)
            own = [x.bb for x in cx.summ.sites_by_body.get(b.key, ()) if x.cls == 'active_writers' and x.op.startswith('fetch_') and b.dominates(x.bb, s.bb)]
            col.add('COOLDOWN-OWNED', '%s|writers count synchronised before release' % b.fname, bool(rmw or own),
                    'an RMW on active_writers precedes the Release swap of in_use to COOLDOWN (the value check_cooldown later reads Relaxed is at least that recent)', s.loc)
    d = [b for b in lib.bodies if b.fname == '<debt::list::LocalNode as std::ops::Drop>::drop']
    col.add('COOLDOWN-OWNED', 'LocalNode|Drop impl', len(d) == 1, 'LocalNode releases its node on thread exit')


# --------------------------------------------------------------------------------------------
# TXN-CLOSED

def _is_user_call(t):
    c = t['callee']
    if c.get('self_is_param'):
        return True
    if c.get('key') in ('<fnptr>', '<indirect>'):
        return True
    return False


def quiet_functions(fx):
    """lib bodies that only call atomics / pure leaves / quiet lib functions and contain no
    user-code call, no drop of a generic value"""
    lib = fx.lib
    quiet = {}

    def is_quiet(b, stack=()):
        if b.key in quiet:
            return quiet[b.key]
        if b.key in stack:
            return True
        ok = True
        for bb, t in b.calls():
            if b.is_cleanup(bb):
                continue
            if _is_user_call(t):
                ok = False
                break
            c = t['callee']
            ck = c.get('resolved') or c.get('key')
            cb = lib.by_key.get(ck)
            if cb is not None:
                if not is_quiet(cb, stack + (b.key,)):
                    ok = False
                    break
                continue
            cls = P.leaf_class({'path': c.get('resolved_pretty') or c.get('path'), 'kind': 'item'}) or P.leaf_class({'path': c.get('path'), 'kind': 'item'})
            if cls in ('atomic', 'pure', 'panic'):
                continue
            if cls == 'hof':
                # closure arguments must be quiet lib closures
                continue
            ok = False
            break
        for bb, t in b.drops(include_cleanup=False):
            if t.get('has_param'):
                ok = False
        for _, _, cb in U.closures_built(lib, b):
            if not is_quiet(cb, stack + (b.key,)):
                ok = False
        quiet[b.key] = ok
        return ok

    for b in lib.bodies:
        is_quiet(b)
    return quiet


def rule_txn_closed(fx, col):
    cx = O.ctx(fx)
    lib = fx.lib
    quiet = quiet_functions(fx)
    n = 0
    for b in lib.bodies:
        opens = [(bb, t, cb) for bb, t, cb in cx.local_calls(b) if cx.publishes_intent(cb.key) and not cx.confirms_intent(cb.key)]
        closes = [(bb, t, cb) for bb, t, cb in cx.local_calls(b) if cx.confirms_intent(cb.key) and not cx.publishes_intent(cb.key)]
        if not opens or not closes:
            continue
        # only the body where both appear as *separate* calls owns a transaction region
        for (obb, ot, ocb) in opens:
            cl = [(cbb, ct, ccb) for (cbb, ct, ccb) in closes if cbb != obb]
            if not cl:
                continue
            n += 1
            (cbb, ct, ccb) = cl[0]
            ok = True
            why = []
            # region = blocks on paths from the open call's target to the close call
            start = ot['target']
            region = b.reach_from(start, unwind=True, avoid={cbb}) | {cbb}
            if not b.dominates(obb, cbb):
                ok = False
                why.append('the confirming call is not dominated by the opening call')
            for x in sorted(region):
                t = b.term(x)
                if x == cbb:
                    continue
                k = t['k']
                if k in ('goto', 'switch'):
                    continue
                if k == 'call':
                    c = t['callee']
                    if U.is_atomic_callee(c):
                        continue
                    ck = c.get('resolved') or c.get('key')
                    cb2 = lib.by_key.get(ck)
                    if cb2 is not None and quiet.get(cb2.key):
                        continue
                    ok = False
                    why.append('call to %s inside the transaction at %s' % (c.get('pretty'), b.loc(x)))
                elif k in ('return', 'resume'):
                    ok = False
                    why.append('%s reachable with the transaction open at %s' % (k, b.loc(x)))
                elif k == 'drop':
                    ok = False
                    why.append('drop of %s inside the transaction at %s' % (t['ty'], b.loc(x)))
                elif k == 'assert':
                    ok = False
                    why.append('compiler check (%s) inside the transaction at %s' % (t['msg'], b.loc(x)))
                elif k == 'unreachable':
                    continue
                else:
                    ok = False
                    why.append('%s inside the transaction' % k)
            col.add('TXN-CLOSED', '%s|region' % b.fname, ok, '; '.join(why) or 'between the intent publish (%s) and the confirmation (%s) only the cell load and casts happen' % (b.loc(obb), b.loc(cbb)), b.loc(obb))
            # the callee that opens: after the control swap only quiet things until return
            for s in cx.summ.sites_reachable(ocb.key):
                if s.cls == 'control' and s.op == 'swap' and U.int_of(s.body, s.arg(1)) is None:
                    _suffix_quiet(fx, col, quiet, s.body, s.bb, 'open')
            # the caller chain between ocb and the swap: every function on the chain returns right after
            _chain_suffix(fx, col, quiet, cx, ocb)
            # the callee that closes: before the control swap(IDLE) only quiet things
            for s in cx.summ.sites_reachable(ccb.key):
                if s.cls == 'control' and s.op == 'swap' and U.int_of(s.body, s.arg(1)) == cx.IDLE:
                    _prefix_quiet(fx, col, quiet, s.body, s.bb, 'close')
            _chain_prefix(fx, col, quiet, cx, ccb)
    col.floor('TXN-CLOSED', 'transaction regions', n, 1)


def _quiet_term(fx, quiet, b, x):
    t = b.term(x)
    k = t['k']
    if k in ('goto', 'switch', 'return', 'unreachable'):
        return None
    if k == 'call':
        c = t['callee']
        if U.is_atomic_callee(c):
            return None
        ck = c.get('resolved') or c.get('key')
        cb2 = fx.lib.by_key.get(ck)
        if cb2 is not None and quiet.get(cb2.key):
            return None
        cls = P.leaf_class({'path': c.get('resolved_pretty') or c.get('path'), 'kind': 'item'}) or P.leaf_class({'path': c.get('path'), 'kind': 'item'})
        if cls in ('pure', 'panic', 'fmt'):
            return None
        if cls == 'hof' and not _is_user_call(t):
            return None
        return 'call to %s at %s' % (c.get('pretty'), b.loc(x))
    if k == 'assert':
        return None  # discharged by PANIC-INV
    if k == 'drop':
        if t.get('has_param'):
            return 'drop of generic %s at %s' % (t['ty'], b.loc(x))
        return None
    if k == 'resume':
        return None
    return '%s at %s' % (k, b.loc(x))


def _suffix_quiet(fx, col, quiet, b, bb, tag):
    start = b.term(bb)['target']
    bad = [w for w in (_quiet_term(fx, quiet, b, x) for x in sorted(b.reach_from(start, unwind=False))) if w]
    col.add('TXN-CLOSED', '%s|after %s' % (b.fname, tag), not bad, '; '.join(bad) or 'nothing but assertions and return after the control swap')


def _prefix_quiet(fx, col, quiet, b, bb, tag):
    before = [x for x in b.reachable(unwind=False) if x != bb and bb in b.reach_from(x, unwind=False)]
    bad = [w for w in (_quiet_term(fx, quiet, b, x) for x in sorted(before)) if w]
    col.add('TXN-CLOSED', '%s|before %s' % (b.fname, tag), not bad, '; '.join(bad) or 'only quiet operations precede the confirming swap')


def _chain_suffix(fx, col, quiet, cx, top):
    """in `top` (e.g. new_helping): after the call that (transitively) opens, only quiet things"""
    b = top
    for bb, t, cb in cx.local_calls(b):
        if cx.publishes_intent(cb.key):
            start = t['target']
            bad = [w for w in (_quiet_term(fx, quiet, b, x) for x in sorted(b.reach_from(start, unwind=False))) if w]
            col.add('TXN-CLOSED', '%s|after open call' % b.fname, not bad, '; '.join(bad) or 'returns right after opening the transaction', b.loc(bb))
            if cb.key != b.key and not any(s.body.key == cb.key for s in cx.summ.sites_by_body.get(cb.key, ()) if s.cls == 'control'):
                _chain_suffix(fx, col, quiet, cx, cb)


def _chain_prefix(fx, col, quiet, cx, top):
    b = top
    for bb, t, cb in cx.local_calls(b):
        if cx.confirms_intent(cb.key):
            before = [x for x in b.reachable(unwind=False) if x != bb and bb in b.reach_from(x, unwind=False)]
            bad = [w for w in (_quiet_term(fx, quiet, b, x) for x in sorted(before)) if w]
            col.add('TXN-CLOSED', '%s|before close call' % b.fname, not bad, '; '.join(bad) or 'only quiet operations before the confirming call', b.loc(bb))
            if cb.key != b.key and not any(s.cls == 'control' for s in cx.summ.sites_by_body.get(cb.key, ())):
                _chain_prefix(fx, col, quiet, cx, cb)


# --------------------------------------------------------------------------------------------
# NODE-STABLE: a frame that works on the thread's own node across a call that can re-enter the
# library keeps that node from being handed to another thread

def _may_reenter(fx, cx):
    """lib bodies from which a call can re-enter the library on this thread and replace the thread's
    node: they (transitively) call a closure-typed parameter / trait method on a type parameter that
    is not one of RefCnt's conversions, or reach a body that takes/sets LocalNode.node"""
    lib = fx.lib
    direct = set()
    for b in lib.bodies:
        for bb, t in b.calls(include_cleanup=False):
            c = t['callee']
            if c.get('self_is_param') and (c.get('trait_pretty') or '').endswith(('ops::Fn', 'ops::FnMut', 'ops::FnOnce')):
                direct.add(b.key)
            if 'cell::Cell' in c.get('path', '') and U.callee_name(t) in ('take', 'set', 'replace') and t['args'] and _is_node_cell(b, t['args'][0]):
                direct.add(b.key)
    out = set()
    for b in lib.bodies:
        if cx.summ.reach(b.key) & direct:
            out.add(b.key)
    return out


def rule_node_stable(fx, col):
    cx = O.ctx(fx)
    lib = fx.lib
    reenter = _may_reenter(fx, cx)
    n = 0
    for b in lib.bodies:
        if b.j.get('impl_self_adt') != NODE_CELL[0] or b.kind != 'AssocFn' or b.j.get('impl_trait'):
            continue
        # node references obtained from the thread's handle
        gets = [(bb, t) for bb, t in b.calls(include_cleanup=False)
                if U.callee_name(t) == 'get' and 'cell::Cell' in t['callee'].get('path', '') and t['args'] and _is_node_cell(b, t['args'][0])]
        if not gets:
            continue
        thr = lambda tt: [0] if (U.callee_name(tt) in ('expect', 'unwrap') and 'option::Option' in tt['callee'].get('path', '')) else None
        for bb, t in b.calls(include_cleanup=False):
            ck = t['callee'].get('resolved') or t['callee'].get('key')
            cb = lib.by_key.get(ck)
            if cb is None or cb.key not in reenter or cb.j.get('impl_self_adt') == NODE_CELL[0]:
                continue
            # does the call work on node-derived data?
            node_args = []
            for a in t['args']:
                src = b.origins(a, through_calls=thr)
                if any(o[0] == 'call' and o[1] in [g[0] for g in gets] for o in src):
                    node_args.append(a)
            if not node_args:
                continue
            n += 1
            # a NodeReservation on that node alive across the call
            res = [(rbb, rt) for rbb, rt in b.calls(include_cleanup=False)
                   if b.local_ty(rt['dest']['local']).startswith('debt::list::NodeReservation') and b.dominates(rbb, bb) and rbb != bb]
            ok = False
            why = 'no writer reservation on the thread\'s own node is held across the call'
            for (rbb, rt) in res:
                same = b.origins(rt['args'][0], through_calls=thr) & b.origins(node_args[0], through_calls=thr)
                drops = [d for d, dt in b.drops(include_cleanup=False) if dt['place']['local'] == rt['dest']['local']]
                after = bool(drops) and all(b.dominates(bb, d) for d in drops)
                if same and after:
                    ok = True
                    why = 'reserve_writer() on the same node at %s, released at %s after the call' % (b.loc(rbb), [b.loc(d) for d in drops])
            col.add('NODE-STABLE', '%s|%s' % (b.fname, cb.fname.split('::')[-1]), ok,
                    '%s works on the thread\'s own node while it can re-enter the library (a nested load may wrap the generation, cool this node down '
                    'and attach another one): %s' % (cb.fname, why), b.loc(bb))
    col.floor('NODE-STABLE', 're-entrant calls on the own node', n, 1)
