"""MIR fact model + CFG utilities (dominators, post-dominators, loops, slices).

Pure Python over the JSON written by driver/ (no arc-swap code is executed anywhere).
"""
import json
from collections import defaultdict


# --------------------------------------------------------------------------------------------
# pretty printing helpers (used in reports and by `check --dump`)

def place_str(p):
    s = '_%d' % p['local']
    for e in p['proj']:
        k = e['k']
        if k == 'deref':
            s = '(*%s)' % s
        elif k == 'field':
            s += '.' + str(e.get('name', e.get('idx')))
        elif k == 'index':
            s += '[_%d]' % e['local']
        elif k == 'downcast':
            s += ' as %s' % e.get('variant')
        elif k == 'constindex':
            s += '[%s]' % e['offset']
        else:
            s += '?' + k
    return s


def op_str(o):
    if o is None:
        return 'None'
    k = o['k']
    if k in ('copy', 'move'):
        return ('move ' if k == 'move' else '') + place_str(o['place'])
    if k == 'const':
        c = o['c']
        if 'int' in c and 'variant' not in c:
            return 'const %s' % c['int']
        return 'const %s' % (c.get('variant') or c.get('fn_pretty') or c.get('text'))
    return str(o)


def rv_str(rv):
    k = rv['k']
    if k == 'use':
        return op_str(rv['op'])
    if k == 'ref':
        return '&%s%s' % ('mut ' if rv['mut'] else '', place_str(rv['place']))
    if k == 'rawptr':
        return '&raw %s' % place_str(rv['place'])
    if k == 'cast':
        return '%s as %s (%s)' % (op_str(rv['op']), rv['ty'], rv['cast'])
    if k == 'binop':
        return '%s(%s, %s)' % (rv['op'], op_str(rv['l']), op_str(rv['r']))
    if k == 'unop':
        return '%s(%s)' % (rv['op'], op_str(rv['arg']))
    if k == 'discr':
        return 'discriminant(%s)' % place_str(rv['place'])
    if k == 'aggregate':
        if rv['agg'] == 'adt':
            return '%s::%s{%s}' % (rv['adt'], rv['variant'], ', '.join(op_str(f) for f in rv['fields']))
        if rv['agg'] == 'closure':
            return 'closure %s[%s]' % (rv['closure'], ', '.join(op_str(f) for f in rv['fields']))
        return '%s(%s)' % (rv['agg'], ', '.join(op_str(f) for f in rv['fields']))
    if k == 'tls_ref':
        return 'tls &%s' % rv['def']
    return '%s %s' % (k, rv.get('text', ''))


# --------------------------------------------------------------------------------------------

class Body:
    def __init__(self, j, crate):
        self.j = j
        self.crate = crate
        self.key = j['key']
        self.pretty = j['pretty']
        self.name = j.get('name')
        self.kind = j['kind']
        self.blocks = j['blocks']
        self.locals = j['locals']
        self.arg_count = j['arg_count']
        self.file = j['span']['file']
        self.line = j['span']['line']
        self.n = len(self.blocks)
        self.fname = j['pretty']
        self._succ = None
        self._pred = None
        self._dom = {}
        self._pdom = {}
        self._assigns = None

    def __repr__(self):
        return '<Body %s>' % self.pretty

    # ---- basic access
    def term(self, bb):
        return self.blocks[bb]['term']

    def stmts(self, bb):
        return self.blocks[bb]['stmts']

    def is_cleanup(self, bb):
        return self.blocks[bb]['cleanup']

    def loc(self, bb, idx=None):
        b = self.blocks[bb]
        if idx is None or idx >= len(b['stmts']):
            sp = b['term']['span']
        else:
            sp = b['stmts'][idx].get('span') or b['term']['span']
        return '%s:%d' % (rel(sp['file']), sp['line'])

    def local_ty(self, l):
        return self.locals[l]['ty']

    def local_name(self, l):
        return self.locals[l].get('name')

    # ---- CFG
    def term_succs(self, bb, unwind=True):
        t = self.term(bb)
        k = t['k']
        out = []
        if k == 'goto':
            out.append(t['target'])
        elif k == 'switch':
            out.extend(x[1] for x in t['targets'])
            out.append(t['otherwise'])
        elif k in ('call', 'drop', 'assert'):
            if t.get('target') is not None:
                out.append(t['target'])
            if unwind and isinstance(t.get('unwind'), int):
                out.append(t['unwind'])
        elif k == 'other':
            # FalseEdge etc. do not survive to optimized MIR; be loud if something unknown shows up
            raise ValueError('unknown terminator in %s bb%d: %s' % (self.pretty, bb, t.get('text')))
        # de-duplicate, keep order
        seen = []
        for x in out:
            if x not in seen:
                seen.append(x)
        return seen

    def succs(self, unwind=True):
        key = bool(unwind)
        if self._succ is None:
            self._succ = {}
        if key not in self._succ:
            self._succ[key] = [self.term_succs(b, unwind) for b in range(self.n)]
        return self._succ[key]

    def preds(self, unwind=True):
        key = bool(unwind)
        if self._pred is None:
            self._pred = {}
        if key not in self._pred:
            p = [[] for _ in range(self.n)]
            for b, ss in enumerate(self.succs(unwind)):
                for s in ss:
                    p[s].append(b)
            self._pred[key] = p
        return self._pred[key]

    def reachable(self, unwind=True, start=0):
        seen = {start}
        st = [start]
        succ = self.succs(unwind)
        while st:
            b = st.pop()
            for s in succ[b]:
                if s not in seen:
                    seen.add(s)
                    st.append(s)
        return seen

    def reach_from(self, start, unwind=True, avoid=()):
        """blocks reachable from `start` (inclusive) without passing through blocks in avoid"""
        if start in avoid:
            return set()
        seen = {start}
        st = [start]
        succ = self.succs(unwind)
        while st:
            b = st.pop()
            for s in succ[b]:
                if s not in seen and s not in avoid:
                    seen.add(s)
                    st.append(s)
        return seen

    # ---- dominators (Cooper-Harvey-Kennedy)
    def idom(self, unwind=True):
        key = bool(unwind)
        if key in self._dom:
            return self._dom[key]
        succ = self.succs(unwind)
        idom = _chk_idom(self.n, 0, succ)
        self._dom[key] = idom
        return idom

    def dominates(self, a, b, unwind=True):
        """block a dominates block b (reflexive)"""
        idom = self.idom(unwind)
        if idom[b] is None and b != 0:
            return False  # unreachable
        x = b
        while True:
            if x == a:
                return True
            if x == 0 or idom[x] is None or idom[x] == x:
                return False
            x = idom[x]

    def pos_dominates(self, pa, pb, unwind=True):
        """position (bb, idx) dominance; idx = statement index, terminator = len(stmts)"""
        (a, ia), (b, ib) = pa, pb
        if a == b:
            return ia <= ib
        return self.dominates(a, b, unwind)

    def term_pos(self, bb):
        return (bb, len(self.stmts(bb)))

    # ---- post-dominators w.r.t. a chosen exit set
    def ipdom(self, exits='return', unwind=False):
        """exits: 'return' (Return terminators) or 'all' (return + resume + terminate + unreachable-free)"""
        key = (exits, bool(unwind))
        if key in self._pdom:
            return self._pdom[key]
        n = self.n
        succ = self.succs(unwind)
        ex = []
        for b in range(n):
            k = self.term(b)['k']
            if k == 'return' or (exits == 'all' and k in ('resume', 'terminate')):
                ex.append(b)
        # reverse graph with virtual exit n
        rsucc = [[] for _ in range(n + 1)]
        for b in range(n):
            for s in succ[b]:
                rsucc[s].append(b)
        for e in ex:
            rsucc[n].append(e)
        ip = _chk_idom(n + 1, n, rsucc)
        self._pdom[key] = ip
        return ip

    def postdominates(self, a, b, exits='return', unwind=False):
        """a post-dominates b: every path from b to an exit passes a (reflexive)."""
        ip = self.ipdom(exits, unwind)
        n = self.n
        x = b
        while True:
            if x == a:
                return True
            if x == n or ip[x] is None or ip[x] == x:
                return False
            x = ip[x]

    # ---- loops
    def back_edges(self, unwind=False):
        out = []
        succ = self.succs(unwind)
        for b in self.reachable(unwind):
            for s in succ[b]:
                if self.dominates(s, b, unwind):
                    out.append((b, s))
        return out

    def natural_loop(self, tail, head, unwind=False):
        body = {head, tail}
        st = [tail]
        preds = self.preds(unwind)
        while st:
            b = st.pop()
            if b == head:
                continue
            for p in preds[b]:
                if p not in body:
                    body.add(p)
                    st.append(p)
        return body

    def loops(self, unwind=False):
        """list of (head, set(blocks), [tails]) merging back edges with the same head"""
        by_head = defaultdict(lambda: (set(), []))
        for (t, h) in self.back_edges(unwind):
            blocks, tails = by_head[h]
            blocks |= self.natural_loop(t, h, unwind)
            tails.append(t)
        return [(h, bl, tl) for h, (bl, tl) in sorted(by_head.items())]

    # ---- control dependence: blocks whose execution depends on the branch taken at `b`
    def controlled_by(self, b, succ_taken, exits='return', unwind=False):
        """set of blocks reachable from succ_taken that are NOT reachable... precisely:
        blocks X such that X is reached only if edge b->succ_taken is taken: X dominated by the
        edge (succ_taken dominates X and succ_taken's only relevant pred is b)."""
        out = set()
        for x in self.reachable(unwind):
            if self.dominates(succ_taken, x, unwind):
                out.add(x)
        # the edge must be the only way into succ_taken (apart from back edges from inside)
        for p in self.preds(unwind)[succ_taken]:
            if p != b and p not in out:
                return set()
        return out

    # ---- definitions
    def assigns(self):
        """local -> list of (bb, idx, kind, payload, proj) where kind in {'stmt','call'}"""
        if self._assigns is not None:
            return self._assigns
        a = defaultdict(list)
        for bb in range(self.n):
            for i, s in enumerate(self.stmts(bb)):
                if s['k'] == 'assign':
                    d = s['dest']
                    a[d['local']].append((bb, i, 'stmt', s['rv'], d['proj']))
                elif s['k'] == 'setdiscr':
                    d = s['dest']
                    a[d['local']].append((bb, i, 'setdiscr', s, d['proj']))
            t = self.term(bb)
            if t['k'] == 'call':
                d = t['dest']
                a[d['local']].append((bb, len(self.stmts(bb)), 'call', t, d['proj']))
        self._assigns = a
        return a

    def calls(self, include_cleanup=True):
        for bb in range(self.n):
            t = self.term(bb)
            if t['k'] == 'call' and (include_cleanup or not self.is_cleanup(bb)):
                yield bb, t

    def drops(self, include_cleanup=True):
        for bb in range(self.n):
            t = self.term(bb)
            if t['k'] == 'drop' and (include_cleanup or not self.is_cleanup(bb)):
                yield bb, t

    def releases(self, local, include_cleanup=False):
        """blocks where the value held in `local` is released: an implicit Drop terminator on the local, or the local (or a
        plain move-copy of it) moved into mem::drop"""
        out = []
        for bb, t in self.drops(include_cleanup):
            if t['place']['local'] == local and not t['place']['proj']:
                out.append(bb)
        for bb, t in self.calls(include_cleanup):
            c = t['callee']
            if c.get('name') == 'drop' and c.get('path', '').endswith('mem::drop') and t['args'] and t['args'][0]['k'] == 'move':
                src = t['args'][0]['place']['local']
                seen = 0
                while src != local and seen < 4:
                    ds = [x for x in self.assigns().get(src, ()) if not x[4]]
                    if len(ds) != 1 or ds[0][2] != 'stmt' or ds[0][3]['k'] != 'use' or ds[0][3]['op']['k'] != 'move' or ds[0][3]['op']['place']['proj']:
                        break
                    src = ds[0][3]['op']['place']['local']
                    seen += 1
                if src == local:
                    out.append(bb)
        return out

    # ---- value resolution
    def const_of(self, op, depth=0):
        """resolve an operand to a constant descriptor {'int':..}/{'variant':..} if it is a
        constant or a temp assigned exactly once from a constant / unit-variant aggregate."""
        if op is None or depth > 8:
            return None
        if op['k'] == 'const':
            return op['c']
        if op['k'] in ('copy', 'move'):
            p = op['place']
            if p['proj']:
                return None
            defs = self.assigns().get(p['local'], [])
            if len(defs) != 1:
                return None
            bb, i, kind, rv, proj = defs[0]
            if kind != 'stmt' or proj:
                return None
            if rv['k'] == 'use':
                return self.const_of(rv['op'], depth + 1)
            if rv['k'] == 'cast':
                return self.const_of(rv['op'], depth + 1)
            if rv['k'] == 'aggregate' and rv['agg'] == 'adt' and not rv['fields']:
                return {'variant': rv['variant'], 'adt': rv['adt'], 'ty': rv['adt']}
        return None

    def origins(self, op, through_calls=None, _seen=None, fields=False, binops=False):
        """Backward slice of an operand / local to its origins.
        Returns a set of tuples:
          ('arg', n) | ('call', bb) | ('const', text) | ('agg', bb, idx) | ('static', def) |
          ('binop', bb, idx) | ('discr', bb, idx) | ('other', bb, idx)
        Flow-insensitive per local (adds sources, never removes). Projections on the source place
        are ignored (a field of X derives from X). `through_calls(term) -> list of arg indices`
        lets the caller look through wrapper calls (e.g. pointer casts, deref)."""
        if _seen is None:
            _seen = set()
        out = set()
        if op is None:
            return out
        if isinstance(op, int):
            local = op
        elif op['k'] == 'const':
            c = op['c']
            if 'static' in c:
                out.add(('static', c['static']))
            elif 'def' in c:
                out.add(('static', c['def']))
            else:
                out.add(('const', c.get('variant') or str(c.get('int', c.get('text')))))
            return out
        elif op['k'] in ('copy', 'move'):
            local = op['place']['local']
            pr = op['place']['proj']
            if pr and pr[0]['k'] == 'field' and pr[0].get('adt') != '<closure>' and 'idx' in pr[0] and not (1 <= local <= self.arg_count):
                # a field of a tuple / struct value built in this body (`let (a, b) = (x, y)`, an argument tuple, `let s = Spaces { theirs,
                # mine }; .. s.mine`), also through whole-value copies: only what went into that field
                r = self._field_sources(local, pr[0].get('adt'), pr[0]['idx'], 0)
                if r is not None:
                    for f in r:
                        out |= self.origins(f, through_calls, _seen, fields, binops)
                    return out
            if len(pr) >= 2 and pr[0]['k'] == 'downcast' and pr[1]['k'] == 'field' and not (1 <= local <= self.arg_count):
                # the payload of one variant of an enum value built in this body (`match helper() { Ok(v) => v, .. }` after the helper
                # was spliced in): only what went into that variant
                r = self._variant_payload(local, pr[0].get('variant'), pr[1]['idx'], 0)
                if r is not None:
                    for f in r:
                        out |= self.origins(f, through_calls, _seen, fields, binops)
                    return out
        else:
            out.add(('other', -1, -1))
            return out
        if local in _seen:
            return out
        _seen.add(local)
        if 1 <= local <= self.arg_count:
            out.add(('arg', local))
        for (bb, i, kind, rv, proj) in self.assigns().get(local, []):
            if any(e['k'] == 'deref' for e in proj):
                continue  # a write *through* the pointer held in `local` does not redefine the pointer
            if kind == 'call':
                idxs = through_calls(rv) if through_calls else None
                if idxs:
                    for ai in idxs:
                        if ai < len(rv['args']):
                            out |= self.origins(rv['args'][ai], through_calls, _seen, fields, binops)
                else:
                    out.add(('call', bb))
            elif kind == 'setdiscr':
                continue
            else:
                k = rv['k']
                if k == 'use':
                    out |= self.origins(rv['op'], through_calls, _seen, fields, binops)
                elif k == 'cast':
                    out |= self.origins(rv['op'], through_calls, _seen, fields, binops)
                elif k in ('ref', 'rawptr'):
                    out |= self.origins(rv['place']['local'], through_calls, _seen, fields, binops)
                    for e in rv['place']['proj']:
                        if e['k'] == 'index':
                            pass
                elif k == 'aggregate':
                    if rv['fields']:
                        if fields:
                            out.add(('agg', bb, i))
                        for f in rv['fields']:
                            out |= self.origins(f, through_calls, _seen, fields, binops)
                    else:
                        out.add(('agg', bb, i))
                elif k == 'binop':
                    if binops:
                        out |= self.origins(rv['l'], through_calls, _seen, fields, binops)
                        out |= self.origins(rv['r'], through_calls, _seen, fields, binops)
                    else:
                        out.add(('binop', bb, i))
                elif k == 'unop':
                    out |= self.origins(rv['arg'], through_calls, _seen, fields, binops)
                elif k == 'discr':
                    out.add(('discr', bb, i))
                elif k == 'tls_ref':
                    out.add(('static', rv['def']))
                else:
                    out.add(('other', bb, i))
        return out

    def _field_sources(self, local, adt, idx, depth):
        """operands stored as field `idx` in every place the tuple (adt None / '<tuple>') or struct `adt` held by `local` is built,
        following plain copies of the whole value; None when some definition is not such an aggregate"""
        if depth > 4:
            return None
        ds = self.assigns().get(local, [])
        if not ds or (1 <= local <= self.arg_count):
            return None
        out = []
        for (bb, i, kind, rv, proj) in ds:
            if kind != 'stmt' or proj:
                return None
            if rv['k'] == 'aggregate':
                is_t = rv.get('agg') == 'tuple' and adt in (None, '<tuple>')
                is_s = rv.get('agg') == 'adt' and adt not in (None, '<tuple>') and rv.get('adt') == adt
                if not (is_t or is_s) or idx >= len(rv['fields']):
                    return None
                out.append(rv['fields'][idx])
            elif rv['k'] == 'use' and rv['op'].get('k') in ('copy', 'move') and not rv['op']['place']['proj']:
                r = self._field_sources(rv['op']['place']['local'], adt, idx, depth + 1)
                if r is None:
                    return None
                out.extend(r)
            else:
                return None
        return out

    def _variant_payload(self, local, vname, idx, depth):
        """operands stored as field `idx` of variant `vname` in every place `local` is built (following plain copies of whole
        values); None when some definition is not such an aggregate"""
        if depth > 4 or vname is None:
            return None
        ds = self.assigns().get(local, [])
        if not ds:
            return None
        out = []
        for (bb, i, kind, rv, proj) in ds:
            if kind != 'stmt' or proj:
                return None
            if rv['k'] == 'aggregate' and rv.get('agg') == 'adt' and rv.get('variant') is not None:
                if rv['variant'] == vname:
                    if idx >= len(rv['fields']):
                        return None
                    out.append(rv['fields'][idx])
            elif rv['k'] == 'use' and rv['op'].get('k') in ('copy', 'move') and not rv['op']['place']['proj'] \
                    and not (1 <= rv['op']['place']['local'] <= self.arg_count):
                r = self._variant_payload(rv['op']['place']['local'], vname, idx, depth + 1)
                if r is None:
                    return None
                out.extend(r)
            else:
                return None
        return out

    def ref_path(self, op, depth=0):
        """Resolve a reference-valued operand to (root, [field descriptors]) following
        `&place`, copies, and derefs.  root = ('arg', n) | ('call', bb) | ('static', def) |
        ('local', n) | ('const', text).  Field descriptors are dicts {adt, name} (outermost first)."""
        if depth > 12 or op is None:
            return (('unknown',), [])
        if op['k'] == 'const':
            c = op['c']
            if 'static' in c:
                return (('static', c['static']), [])
            if 'def' in c:
                return (('static', c['def']), [])
            return (('const', c.get('text')), [])
        p = op['place']
        return self._place_path(p, depth)

    def _place_path(self, p, depth):
        fields = [dict(adt=e.get('adt'), name=e.get('name'), k='field') for e in p['proj'] if e['k'] == 'field']
        idx = [e for e in p['proj'] if e['k'] in ('index', 'constindex')]
        for e in idx:
            fields.append(dict(adt=None, name='[%s]' % (('_%d' % e['local']) if e['k'] == 'index' else e['offset']), k='index',
                               local=e.get('local')))
        # keep field order as in projection
        fields = []
        for e in p['proj']:
            if e['k'] == 'field':
                fields.append(dict(adt=e.get('adt'), name=e.get('name'), k='field'))
            elif e['k'] == 'index':
                fields.append(dict(adt=None, name='[_%d]' % e['local'], k='index', local=e['local']))
            elif e['k'] == 'constindex':
                fields.append(dict(adt=None, name='[%s]' % e['offset'], k='index'))
        local = p['local']
        if 1 <= local <= self.arg_count:
            return (('arg', local), fields)
        defs = self.assigns().get(local, [])
        defs = [d for d in defs if not d[4]]
        if len(defs) != 1:
            return (('local', local), fields)
        bb, i, kind, rv, proj = defs[0]
        if kind == 'call':
            return (('call', bb), fields)
        k = rv['k']
        if k == 'use' or k == 'cast':
            o = rv['op']
            if o['k'] == 'const':
                r, f = self.ref_path(o, depth + 1)
                return (r, f + fields)
            r, f = self._place_path(o['place'], depth + 1)
            return (r, f + fields)
        if k in ('ref', 'rawptr'):
            r, f = self._place_path(rv['place'], depth + 1)
            return (r, f + fields)
        if k == 'tls_ref':
            return (('static', rv['def']), fields)
        return (('local', local), fields)

    # ---- printing
    def dump(self):
        out = ['fn %s  [%s]  %s:%d' % (self.pretty, self.key, rel(self.file), self.line)]
        for i, l in enumerate(self.locals):
            out.append('  let _%d: %s%s' % (i, l['ty'], ('  // ' + l['name']) if l.get('name') else ''))
        for bb in range(self.n):
            out.append('  bb%d%s:' % (bb, ' (cleanup)' if self.is_cleanup(bb) else ''))
            for s in self.stmts(bb):
                if s['k'] == 'assign':
                    out.append('    %s = %s' % (place_str(s['dest']), rv_str(s['rv'])))
                else:
                    out.append('    %s' % s)
            out.append('    ' + self.term_str(bb))
        return '\n'.join(out)

    def term_str(self, bb):
        t = self.term(bb)
        k = t['k']
        if k == 'call':
            c = t['callee']
            return '%s = %s(%s) -> bb%s unwind %s   @%s %s' % (
                place_str(t['dest']), c['pretty'], ', '.join(op_str(a) for a in t['args']), t['target'], t['unwind'],
                t['span']['line'], ','.join(t['span']['macros']))
        if k == 'switch':
            return 'switch %s %s otherwise bb%d' % (op_str(t['discr']), t['targets'], t['otherwise'])
        if k == 'drop':
            return 'drop(%s: %s) -> bb%s unwind %s' % (place_str(t['place']), t['ty'], t['target'], t['unwind'])
        if k == 'assert':
            return 'assert(%s == %s, %s) -> bb%s unwind %s' % (op_str(t['cond']), t['expected'], t['msg'], t['target'], t['unwind'])
        if k == 'goto':
            return 'goto bb%d' % t['target']
        return k


def _chk_idom(n, entry, succ):
    """Cooper-Harvey-Kennedy iterative dominators. succ: list of successor lists. Returns idom
    list (idom[entry] = entry; unreachable = None)."""
    # reverse postorder
    order = []
    seen = [False] * n
    st = [(entry, 0)]
    seen[entry] = True
    while st:
        b, i = st.pop()
        ss = succ[b]
        if i < len(ss):
            st.append((b, i + 1))
            s = ss[i]
            if not seen[s]:
                seen[s] = True
                st.append((s, 0))
        else:
            order.append(b)
    rpo = list(reversed(order))
    num = {b: i for i, b in enumerate(rpo)}
    preds = [[] for _ in range(n)]
    for b in rpo:
        for s in succ[b]:
            preds[s].append(b)
    idom = [None] * n
    idom[entry] = entry

    def intersect(a, b):
        while a != b:
            while num[a] > num[b]:
                a = idom[a]
            while num[b] > num[a]:
                b = idom[b]
        return a

    changed = True
    while changed:
        changed = False
        for b in rpo:
            if b == entry:
                continue
            new = None
            for p in preds[b]:
                if idom[p] is not None:
                    new = p if new is None else intersect(p, new)
            if new is not None and idom[b] != new:
                idom[b] = new
                changed = True
    return idom


_REPO_PREFIX = ['/repo/']


def set_repo_prefix(p):
    if not p.endswith('/'):
        p += '/'
    _REPO_PREFIX[0] = p


def rel(path):
    p = _REPO_PREFIX[0]
    if path.startswith(p):
        return path[len(p):]
    return path


DISPLAY_FIELDS = {'path', 'pretty', 'resolved_pretty', 'self_ty', 'trait_pretty', 'impl_self_ty', 'impl_trait_ref', 'ty',
                  'arg_tys', 'args', 'fn_pretty', 'text', 'drop_ty', 'discr_ty', 'sig', 'trait_ref', 'predicates', 'unresolved',
                  'array_of'}
_NORM_RE = None


def norm_path(p):
    """display paths are printed through `std::` re-exports when std is linked and as `core::` / `alloc::` in a
    no_std build (experimental-thread-local); compare them in one canonical spelling"""
    global _NORM_RE
    if _NORM_RE is None:
        import re
        _NORM_RE = re.compile(r'\b(?:core|alloc)::')
    return _NORM_RE.sub('std::', p)


def normalise(j):
    if isinstance(j, dict):
        for k, v in j.items():
            if k in DISPLAY_FIELDS:
                if isinstance(v, str):
                    j[k] = norm_path(v)
                elif isinstance(v, list) and all(isinstance(x, str) for x in v):
                    j[k] = [norm_path(x) for x in v]
                else:
                    normalise(v)
            else:
                normalise(v)
    elif isinstance(j, list):
        for x in j:
            normalise(x)
    return j


class Crate:
    def __init__(self, path, known_names=None, preloaded=None, helper_keys=None, closure_keys=None):
        self.j = preloaded if preloaded is not None else normalise(json.load(open(path)))
        self.name = self.j['crate']
        self.inlined_helpers = set()
        if known_names is not None or helper_keys is not None:
            if closure_keys:
                self.inlined_helpers |= inline_local_closure_calls(self.j, closure_keys)
                self.inlined_helpers |= model_std_adaptors(self.j, closure_keys)
            self.inlined_helpers |= inline_unknown_helpers(self.j, known_names or set(), helper_keys)
            if closure_keys and self.inlined_helpers:
                self.inlined_helpers |= inline_local_closure_calls(self.j, closure_keys, second_pass=True)
            for b_ in self.j['bodies']:
                if b_.get('inlined'):
                    thread_jumps(b_)
        self.all_bodies = [Body(b, self) for b in self.j['bodies']]
        # helpers that were inlined into their callers are analysed there, not on their own
        # ... except `pub` ones: a new public function is an operation of its own even if another new function calls it
        self.bodies = [b for b in self.all_bodies if b.key not in self.inlined_helpers or (b.j.get('vis_pub') and b.kind != 'Closure')]
        self.by_key = {b.key: b for b in self.all_bodies}
        self.by_pretty = defaultdict(list)
        for b in self.bodies:
            self.by_pretty[b.pretty].append(b)
        # stable, generics-free function names used in obligation keys
        for b in sorted(self.all_bodies, key=lambda x: len(x.key)):
            j = b.j
            if b.kind == 'Closure':
                # (a closure aligned with a closure of another function carries that function in its key: the key wins)
                parent = self.by_key.get(b.key.rsplit('::', 1)[0]) or self.by_key.get(j.get('parent'))
                suffix = b.key.rsplit('::', 1)[-1]
                b.fname = ((parent.fname if parent is not None else strip_generics(b.pretty)) + '::' + suffix) if parent is not None else strip_generics(b.pretty)
            elif j.get('impl_trait_ref'):
                tr = strip_generics(j['impl_trait_ref'])
                b.fname = '%s::%s' % (tr, b.name)
            else:
                b.fname = strip_generics(b.pretty)
        cnt = defaultdict(list)
        for b in self.all_bodies:
            if b.kind != 'Closure':
                cnt[b.fname].append(b)
        for name, lst in cnt.items():
            if len(lst) > 1:
                for b in lst:
                    j = b.j
                    if j.get('impl_trait_ref'):
                        b.fname = '<%s as %s>::%s' % (j.get('impl_self_ty'), strip_generics(j['impl_trait_ref']).split(' as ')[-1].rstrip('>'), b.name)
                    elif j.get('impl_self_ty'):
                        b.fname = '<%s>::%s' % (j['impl_self_ty'], b.name)
        for b in sorted(self.all_bodies, key=lambda x: len(x.key)):
            if b.kind == 'Closure':
                parent = self.by_key.get(b.key.rsplit('::', 1)[0]) or self.by_key.get(b.j.get('parent'))
                if parent is not None:
                    b.fname = parent.fname + '::' + b.key.rsplit('::', 1)[-1]
        self.consts = {c['pretty']: c for c in self.j['consts']}
        self.adts = {a['key']: a for a in self.j['adts']}
        self.impls = self.j['impls']
        self.statics = self.j['statics']
        self.traits = self.j['traits']
        self.unsafe_blocks = self.j['unsafe_blocks']
        self.features = self.j['features']
        self.debug_assertions = self.j['debug_assertions']

    def body(self, key):
        return self.by_key.get(key)

    def find(self, suffix):
        """bodies whose pretty path ends with `suffix` (generic args stripped)"""
        out = []
        for b in self.bodies:
            if strip_generics(b.pretty).endswith(suffix):
                out.append(b)
        return out

    def const_int(self, suffix):
        hits = [c for p, c in self.consts.items() if p.endswith(suffix) and 'int' in c]
        if len(hits) != 1:
            return None
        return hits[0]['int']


def strip_generics(s):
    out = []
    depth = 0
    i = 0
    while i < len(s):
        ch = s[i]
        if ch == '<':
            # keep leading '<' of qualified paths `<T as Trait>::m`
            if i == 0 or s[i - 1] in ' (,&':
                out.append(ch)
                i += 1
                continue
            if out and out[-1] == ':' and len(out) >= 2 and out[-2] == ':':
                out.pop()
                out.pop()
            depth += 1
        elif ch == '>' and depth > 0:
            depth -= 1
        elif depth == 0:
            out.append(ch)
        i += 1
    return ''.join(out)


# --------------------------------------------------------------------------------------------
# Inlining of helper functions the rules have never seen (tables/known_functions.json)

def _remap_place(p, lmap):
    q = {'local': lmap(p['local']), 'proj': []}
    for e in p['proj']:
        if e['k'] == 'index':
            e = dict(e)
            e['local'] = lmap(e['local'])
        q['proj'].append(e)
    return q


def _remap_op(o, lmap):
    if not isinstance(o, dict):
        return o
    if o.get('k') in ('copy', 'move'):
        return {'k': o['k'], 'place': _remap_place(o['place'], lmap)}
    return o


def _remap_rv(rv, lmap):
    r = dict(rv)
    for k in ('op', 'l', 'r', 'arg'):
        if isinstance(r.get(k), dict):
            r[k] = _remap_op(r[k], lmap)
    if 'place' in r:
        r['place'] = _remap_place(r['place'], lmap)
    if 'fields' in r:
        r['fields'] = [_remap_op(f, lmap) for f in r['fields']]
    return r


def _inline_one(caller, bb, callee):
    """splice `callee` (body JSON) into `caller` (body JSON, modified in place) at the call in block bb"""
    t = caller['blocks'][bb]['term']
    base_l = len(caller['locals'])
    base_b = len(caller['blocks'])
    lmap = lambda l: l[1] if isinstance(l, tuple) else base_l + l  # ('caller', n): a capture already resolved to a caller local
    bmap = lambda x: base_b + x
    for l in callee['locals']:
        d = dict(l)
        d.pop('name', None)
        caller['locals'].append(d)
    # pass arguments
    stmts = caller['blocks'][bb]['stmts']
    for i, a in enumerate(t['args']):
        stmts.append({'k': 'assign', 'dest': {'local': lmap(i + 1), 'proj': []}, 'rv': {'k': 'use', 'op': a}, 'span': t['span']})
    ret_target = t.get('target')
    unwind = t.get('unwind')
    dest = t['dest']
    caller['blocks'][bb]['term'] = {'k': 'goto', 'target': bmap(0), 'span': t['span']}
    for blk in callee['blocks']:
        nb = {'cleanup': blk['cleanup'] or caller['blocks'][bb]['cleanup'], 'stmts': [], 'term': None}
        for s in blk['stmts']:
            s2 = dict(s)
            if s['k'] in ('assign', 'setdiscr'):
                s2['dest'] = _remap_place(s['dest'], lmap)
            if s['k'] == 'assign':
                s2['rv'] = _remap_rv(s['rv'], lmap)
            nb['stmts'].append(s2)
        ct = dict(blk['term'])
        k = ct['k']
        if k == 'return':
            nb['stmts'].append({'k': 'assign', 'dest': dest, 'rv': {'k': 'use', 'op': {'k': 'move', 'place': {'local': lmap(0), 'proj': []}}}, 'span': ct['span']})
            ct = {'k': 'goto', 'target': ret_target, 'span': ct['span']} if ret_target is not None else {'k': 'unreachable', 'span': ct['span']}
        elif k == 'resume':
            ct = {'k': 'goto', 'target': unwind, 'span': ct['span']} if isinstance(unwind, int) else ct
        else:
            if k == 'goto':
                ct['target'] = bmap(ct['target'])
            elif k == 'switch':
                ct['discr'] = _remap_op(ct['discr'], lmap)
                ct['targets'] = [[v, bmap(x)] for v, x in ct['targets']]
                ct['otherwise'] = bmap(ct['otherwise'])
            elif k in ('call', 'drop', 'assert'):
                if ct.get('target') is not None:
                    ct['target'] = bmap(ct['target'])
                u = ct.get('unwind')
                if isinstance(u, int):
                    ct['unwind'] = bmap(u)
                elif u == 'continue':
                    ct['unwind'] = unwind
                if k == 'call':
                    ct['args'] = [_remap_op(a, lmap) for a in ct['args']]
                    ct['dest'] = _remap_place(ct['dest'], lmap)
                    if 'func_place' in ct:
                        ct['func_place'] = _remap_place(ct['func_place'], lmap)
                elif k == 'drop':
                    ct['place'] = _remap_place(ct['place'], lmap)
                elif k == 'assert':
                    ct['cond'] = _remap_op(ct['cond'], lmap)
        nb['term'] = ct
        caller['blocks'].append(nb)
    caller.setdefault('inlined', []).append(callee['pretty'])


def _rewrite_upvars(callee, env_local, by_value, captures):
    """in the (copied) closure body JSON replace reads of `(*env).upvar#i` / `env.upvar#i` by the operand captured at the
    construction site (a local of the caller, already valid in the merged body because captures are caller locals and the
    callee's locals get remapped *after* this step: we mark them with a negative tag)"""
    def fix_place(p):
        pr = p['proj']
        if p['local'] != env_local:
            return p
        skip = 0
        if not by_value:
            if not pr or pr[0]['k'] != 'deref':
                return p
            skip = 1
        if len(pr) > skip and pr[skip]['k'] == 'field' and pr[skip].get('adt') == '<closure>':
            cap = captures[pr[skip]['idx']]
            if cap['k'] in ('move', 'copy'):
                return {'local': ('caller', cap['place']['local']), 'proj': list(cap['place']['proj']) + pr[skip + 1:]}
        return p

    def walk(x):
        if isinstance(x, dict):
            if 'local' in x and 'proj' in x and isinstance(x['proj'], list):
                y = fix_place(x)
                x['local'], x['proj'] = y['local'], y['proj']
            for v in x.values():
                walk(v)
        elif isinstance(x, list):
            for v in x:
                walk(v)
    for blk in callee['blocks']:
        walk(blk['stmts'])
        walk(blk['term'])



def _snapshot_captures(b, agg):
    """The captures of a closure are evaluated where the closure is BUILT. Give each captured operand a fresh local assigned right
    there (once per closure), so that the spliced-in body reads the value of that moment and not what the variable holds at the call
    (`let f = move |x| use(gen); gen = other; f(1)`)."""
    if agg.get('_snapped'):
        return
    for blk in b['blocks']:
        for i, st in enumerate(blk['stmts']):
            if st['k'] == 'assign' and st['rv'] is agg:
                new = []
                for fi, f in enumerate(agg['fields']):
                    if f.get('k') in ('move', 'copy'):
                        b['locals'].append({'ty': '?'})
                        sl = len(b['locals']) - 1
                        new.append({'k': 'assign', 'dest': {'local': sl, 'proj': []}, 'rv': {'k': 'use', 'op': f}, 'span': st['span']})
                        agg['fields'][fi] = {'k': 'move', 'place': {'local': sl, 'proj': []}}
                blk['stmts'][i:i] = new
                agg['_snapped'] = True
                return

def inline_local_closure_calls(j, closure_keys, second_pass=False):
    """(second_pass: run again after the unknown helpers were spliced into their callers — a closure handed to a generic helper that
    calls it, `helper(flag, || conv(me))`, is by then built and called in one body: the call goes through the helper's type parameter
    (unresolved callee) and the closure value has travelled through plain moves, both followed here.)
    A closure the rules have never seen (no counterpart in the reference tree) that is built in a body and called there
    directly (`let f = |x| ..; f(a); f(b)`) is spliced into that body at each call, with its captures resolved to the
    caller's locals. Returns the keys of closures that were fully absorbed that way."""
    import copy
    by_key = {b['key']: b for b in j['bodies']}
    absorbed = set()
    for b in j['bodies']:
        built = {}
        for blk in b['blocks']:
            for s in blk['stmts']:
                if s['k'] == 'assign' and s['rv']['k'] == 'aggregate' and s['rv'].get('agg') == 'closure' and not s['dest']['proj'] \
                        and s['rv'].get('closure') in closure_keys and s['rv']['closure'] in by_key:
                    built[s['dest']['local']] = s['rv']
        if not built:
            continue
        # references to the closure locals
        refs = {}
        for blk in b['blocks']:
            for s in blk['stmts']:
                if s['k'] == 'assign' and s['rv']['k'] == 'ref' and not s['rv']['place']['proj'] and s['rv']['place']['local'] in built and not s['dest']['proj']:
                    refs[s['dest']['local']] = s['rv']['place']['local']
        alias = {l: l for l in built}
        if second_pass:
            nassign = defaultdict(int)
            for blk in b['blocks']:
                for s in blk['stmts']:
                    if s['k'] == 'assign' and not s['dest']['proj']:
                        nassign[s['dest']['local']] += 1
                if blk['term']['k'] == 'call' and not blk['term']['dest']['proj']:
                    nassign[blk['term']['dest']['local']] += 1
            changed = True
            while changed:
                changed = False
                for blk in b['blocks']:
                    for s in blk['stmts']:
                        if s['k'] == 'assign' and not s['dest']['proj'] and s['dest']['local'] not in alias and nassign[s['dest']['local']] == 1 \
                                and s['rv']['k'] == 'use' and s['rv']['op']['k'] in ('move', 'copy') and not s['rv']['op']['place']['proj'] \
                                and s['rv']['op']['place']['local'] in alias:
                            alias[s['dest']['local']] = alias[s['rv']['op']['place']['local']]
                            changed = True
            for blk in b['blocks']:
                for s in blk['stmts']:
                    if s['k'] == 'assign' and s['rv']['k'] == 'ref' and not s['rv']['place']['proj'] and s['rv']['place']['local'] in alias and not s['dest']['proj']:
                        refs[s['dest']['local']] = alias[s['rv']['place']['local']]
        sites = defaultdict(list)
        other_use = set()
        for bb, blk in enumerate(b['blocks']):
            t = blk['term']
            if t['k'] != 'call':
                continue
            c = t['callee']
            a0 = t['args'][0] if t['args'] else None
            l0 = a0['place']['local'] if a0 and a0['k'] in ('move', 'copy') and not a0['place']['proj'] else None
            cl = refs.get(l0, alias.get(l0))
            if cl is not None and c.get('name') in ('call', 'call_mut', 'call_once') and len(t['args']) == 2 \
                    and (c.get('resolved') == built[cl]['closure'] or (second_pass and not c.get('resolved'))):
                sites[cl].append(bb)
            else:
                for a in t['args']:
                    if a['k'] in ('move', 'copy') and (a['place']['local'] in alias or a['place']['local'] in refs):
                        other_use.add(refs.get(a['place']['local'], alias.get(a['place']['local'])))
        for cl, bbs in sites.items():
            if cl in other_use or len(b['blocks']) > 600:
                continue
            agg = built[cl]
            orig = by_key[agg['closure']]
            if len(orig['blocks']) > 80:
                continue
            _snapshot_captures(b, agg)
            for bb in bbs:
                t = b['blocks'][bb]['term']
                callee = copy.deepcopy(orig)
                by_value = t['callee'].get('name') == 'call_once' and t['args'][0]['place']['local'] in alias
                _rewrite_upvars(callee, 1, by_value, agg['fields'])
                # untuple the arguments: callee locals 2.. are the fields of the argument tuple
                tup = t['args'][1]
                nargs = orig.get('arg_count', 2) - 1
                new_args = [t['args'][0]]
                for i in range(nargs):
                    new_args.append({'k': 'move', 'place': {'local': tup['place']['local'], 'proj': list(tup['place']['proj']) + [{'k': 'field', 'idx': i, 'name': str(i), 'adt': '<tuple>', 'ty': orig['locals'][2 + i]['ty']}]}}
                                    if tup['k'] in ('move', 'copy') else tup)
                t['args'] = new_args
                _inline_one(b, bb, callee)
            absorbed.add(agg['closure'])
    return absorbed



# --------------------------------------------------------------------------------------------
# Models of std combinators for closures the rules have never seen: `x.map(|v| ..)` is spliced in as the match it stands for

_ADAPTORS = {
    # path: (adt, variant whose payload goes to the closure (name, idx) or None for "no payload / other arm",
    #        what becomes of the closure's result, what happens on the other variant)
    'std::result::Result::<T, E>::map':            ('core::result::Result', ('Ok', 0), ('wrap', 'Ok'), ('rewrap', 'Err', 1)),
    'std::result::Result::<T, E>::map_err':        ('core::result::Result', ('Err', 1), ('wrap', 'Err'), ('rewrap', 'Ok', 0)),
    'std::result::Result::<T, E>::and_then':       ('core::result::Result', ('Ok', 0), ('plain',), ('rewrap', 'Err', 1)),
    'std::result::Result::<T, E>::unwrap_or_else': ('core::result::Result', ('Err', 1), ('plain',), ('payload', 'Ok', 0)),
    'std::option::Option::<T>::map':               ('core::option::Option', ('Some', 1), ('wrap', 'Some'), ('unit', 'None')),
    'std::option::Option::<T>::and_then':          ('core::option::Option', ('Some', 1), ('plain',), ('unit', 'None')),
    'std::option::Option::<T>::unwrap_or_else':    ('core::option::Option', ('None', 0), ('plain',), ('payload', 'Some', 1)),
    # three-argument forms (self, default, closure): the default operand is what the other arm yields
    'std::option::Option::<T>::map_or':            ('core::option::Option', ('Some', 1), ('plain',), ('default',)),
    'std::result::Result::<T, E>::map_or':         ('core::result::Result', ('Ok', 0), ('plain',), ('default',)),
    # bool::then: `b.then(f)` is `if b { Some(f()) } else { None }`
    'std::bool::<impl bool>::then':                ('bool', ('true', 1), ('wrap-some',), ('unit', 'None')),
}


def _mk_local(body, ty):
    body['locals'].append({'ty': ty})
    return len(body['locals']) - 1


def _variant_field(local, proj, adt, vname, vidx, ty='?'):
    return {'local': local, 'proj': list(proj) + [{'k': 'downcast', 'variant': vname, 'vidx': vidx},
                                                   {'k': 'field', 'idx': 0, 'name': '0', 'adt': adt, 'variant': vname, 'ty': ty}]}


def model_std_adaptors(j, closure_keys):
    """`x.map(closure)`, `.map_err`, `.and_then`, `.unwrap_or_else` on Option / Result with a closure the rules have never seen (built
    in the same body): replace the call by `match x { V(v) => W(closure(v)), other => other }` with the closure body spliced in and
    its captures resolved to the caller's locals. Returns the closures fully absorbed that way."""
    import copy
    by_key = {b['key']: b for b in j['bodies']}
    absorbed = set()
    for b in j['bodies']:
        built = {}
        for blk in b['blocks']:
            for s in blk['stmts']:
                if s['k'] == 'assign' and s['rv']['k'] == 'aggregate' and s['rv'].get('agg') == 'closure' and not s['dest']['proj'] \
                        and s['rv'].get('closure') in closure_keys and s['rv']['closure'] in by_key:
                    built[s['dest']['local']] = s['rv']
        if not built:
            continue
        uses = defaultdict(int)

        def count(x):
            if isinstance(x, dict):
                if 'local' in x and 'proj' in x and x['local'] in built:
                    uses[x['local']] += 1
                for v in x.values():
                    count(v)
            elif isinstance(x, list):
                for v in x:
                    count(v)
        for blk in b['blocks']:
            count(blk['stmts'])
            count(blk['term'])
        for bb in range(len(b['blocks'])):
            t = b['blocks'][bb]['term']
            if t['k'] != 'call' or len(t['args']) not in (2, 3):
                continue
            spec = _ADAPTORS.get(norm_path(t['callee'].get('path') or ''))
            if not spec or (len(t['args']) == 3) != (spec[3][0] == 'default'):
                continue
            a0, a1 = t['args'][0], t['args'][-1]
            default_op = t['args'][1] if len(t['args']) == 3 else None
            if a1['k'] != 'move' or a1['place']['proj'] or a1['place']['local'] not in built or (a0['k'] not in ('move', 'copy') and spec[0] != 'bool'):
                continue
            cl = a1['place']['local']
            if uses[cl] != 2 or t.get('target') is None or len(b['blocks']) > 600:   # the construction and this call
                continue
            agg = built[cl]
            orig = by_key[agg['closure']]
            if len(orig['blocks']) > 80:
                continue
            adt, (vname, vidx), result, other = spec
            span = t['span']
            xp = a0.get('place') or {'local': 0, 'proj': []}
            nargs = orig.get('arg_count', 1) - 1
            ret_ty = orig['locals'][0]['ty']
            disc = _mk_local(b, 'isize')
            r = _mk_local(b, ret_ty)
            dest, target, unwind = t['dest'], t['target'], t.get('unwind')
            base = len(b['blocks'])
            b_call, b_after, b_other = base, base + 1, base + 2
            if adt == 'bool':
                b['blocks'][bb]['term'] = {'k': 'switch', 'discr': copy.deepcopy(a0), 'discr_ty': 'bool', 'targets': [[0, b_other]], 'otherwise': b_call, 'span': span}
            else:
                b['blocks'][bb]['stmts'].append({'k': 'assign', 'dest': {'local': disc, 'proj': []}, 'rv': {'k': 'discr', 'place': copy.deepcopy(xp)}, 'span': span})
                b['blocks'][bb]['term'] = {'k': 'switch', 'discr': {'k': 'move', 'place': {'local': disc, 'proj': []}}, 'discr_ty': 'isize',
                                           'targets': [[vidx, b_call]], 'otherwise': b_other, 'span': span}
            cleanup = b['blocks'][bb]['cleanup']
            # the arm that runs the closure
            args = [copy.deepcopy(a1)]
            stmts = []
            if nargs >= 1 and adt != 'bool':
                v = _mk_local(b, orig['locals'][2]['ty'] if len(orig['locals']) > 2 else '?')
                stmts.append({'k': 'assign', 'dest': {'local': v, 'proj': []},
                              'rv': {'k': 'use', 'op': {'k': 'move', 'place': _variant_field(xp['local'], xp['proj'], adt, vname, vidx, b['locals'][v]['ty'])}}, 'span': span})
                args.append({'k': 'move', 'place': {'local': v, 'proj': []}})
            call = {'k': 'call', 'callee': {'key': agg['closure'], 'resolved': agg['closure'], 'name': 'call_once', 'krate': j['crate'], 'pretty': orig['pretty'], 'path': orig['pretty']},
                    'args': args, 'arg_tys': [], 'dest': {'local': r, 'proj': []}, 'target': b_after, 'unwind': unwind, 'span': span}
            b['blocks'].append({'cleanup': cleanup, 'stmts': stmts, 'term': call})
            if result[0] == 'wrap-some':
                rv = {'k': 'aggregate', 'agg': 'adt', 'adt': 'core::option::Option', 'variant': 'Some', 'args': [], 'field_names': ['0'], 'fields': [{'k': 'move', 'place': {'local': r, 'proj': []}}]}
            elif result[0] == 'wrap':
                rv = {'k': 'aggregate', 'agg': 'adt', 'adt': adt, 'variant': result[1], 'args': [], 'field_names': ['0'], 'fields': [{'k': 'move', 'place': {'local': r, 'proj': []}}]}
            else:
                rv = {'k': 'use', 'op': {'k': 'move', 'place': {'local': r, 'proj': []}}}
            b['blocks'].append({'cleanup': cleanup, 'stmts': [{'k': 'assign', 'dest': copy.deepcopy(dest), 'rv': rv, 'span': span}],
                                'term': {'k': 'goto', 'target': target, 'span': span}})
            # the other arm
            if other[0] == 'rewrap':
                e = _mk_local(b, '?')
                st2 = [{'k': 'assign', 'dest': {'local': e, 'proj': []}, 'rv': {'k': 'use', 'op': {'k': 'move', 'place': _variant_field(xp['local'], xp['proj'], adt, other[1], other[2])}}, 'span': span},
                       {'k': 'assign', 'dest': copy.deepcopy(dest), 'rv': {'k': 'aggregate', 'agg': 'adt', 'adt': adt, 'variant': other[1], 'args': [], 'field_names': ['0'],
                                                                           'fields': [{'k': 'move', 'place': {'local': e, 'proj': []}}]}, 'span': span}]
            elif other[0] == 'default':
                st2 = [{'k': 'assign', 'dest': copy.deepcopy(dest), 'rv': {'k': 'use', 'op': copy.deepcopy(default_op)}, 'span': span}]
            elif other[0] == 'unit':
                st2 = [{'k': 'assign', 'dest': copy.deepcopy(dest), 'rv': {'k': 'aggregate', 'agg': 'adt', 'adt': 'core::option::Option' if adt == 'bool' else adt, 'variant': other[1], 'args': [], 'field_names': [], 'fields': []}, 'span': span}]
            else:  # payload
                st2 = [{'k': 'assign', 'dest': copy.deepcopy(dest), 'rv': {'k': 'use', 'op': {'k': 'move', 'place': _variant_field(xp['local'], xp['proj'], adt, other[1], other[2])}}, 'span': span}]
            b['blocks'].append({'cleanup': cleanup, 'stmts': st2, 'term': {'k': 'goto', 'target': target, 'span': span}})
            # splice the closure body into the arm
            callee = copy.deepcopy(orig)
            by_value = not str(orig['locals'][1]['ty']).lstrip().startswith('&')
            _snapshot_captures(b, agg)
            _rewrite_upvars(callee, 1, by_value, agg['fields'])
            _inline_one(b, b_call, callee)
            absorbed.add(agg['closure'])
    return absorbed


_VIDX = {('core::option::Option', 'None'): 0, ('core::option::Option', 'Some'): 1, ('core::result::Result', 'Ok'): 0, ('core::result::Result', 'Err'): 1,
         ('core::ops::control_flow::ControlFlow', 'Continue'): 0, ('core::ops::control_flow::ControlFlow', 'Break'): 1}


def _ev_value(env, o):
    if o.get('k') == 'const' and isinstance(o.get('c'), dict) and 'int' in o['c']:
        return ('int', o['c']['int'])
    if o.get('k') in ('copy', 'move'):
        pl = o['place']
        src = env.get(pl['local'])
        pr = pl['proj']
        while src is not None and pr:
            if src[0] == 'agg' and len(pr) >= 2 and pr[0]['k'] == 'downcast' and pr[1]['k'] == 'field' and pr[0].get('vidx') == src[1] \
                    and pr[1]['idx'] < len(src[2]):
                src, pr = src[2][pr[1]['idx']], pr[2:]
            elif src[0] == 'tup' and pr[0]['k'] == 'field' and pr[0]['idx'] < len(src[1]):
                src, pr = src[1][pr[0]['idx']], pr[1:]
            else:
                return None
        return src
    return None


def _address_taken(blocks):
    """locals whose address is taken somewhere in the body: they can change through the reference, so the evaluator below never
    trusts a value it has recorded for them"""
    out = set()
    for blk in blocks:
        for s in blk['stmts']:
            if s['k'] == 'assign' and s['rv']['k'] in ('ref', 'rawptr') and not any(e['k'] == 'deref' for e in s['rv']['place']['proj']):
                out.add(s['rv']['place']['local'])
    return out


def _ev_stmt(env, s, banned=()):
    """abstract evaluation of one statement over {local: ('int', n) | ('agg', variant index, [field values]) | ('tup', [field values])}"""
    if s['k'] == 'assign' and not s['dest']['proj'] and s['dest']['local'] in banned:
        env.pop(s['dest']['local'], None)
        return
    if s['k'] != 'assign' or s['dest']['proj']:
        if s['k'] in ('assign', 'setdiscr'):
            env.pop(s['dest']['local'], None)
        return
    L, rv = s['dest']['local'], s['rv']
    val = None
    if rv['k'] == 'use':
        val = _ev_value(env, rv['op'])
    elif rv['k'] == 'aggregate' and rv.get('agg') == 'adt' and (rv.get('adt'), rv.get('variant')) in _VIDX:
        val = ('agg', _VIDX[(rv['adt'], rv['variant'])], [_ev_value(env, f) for f in rv['fields']])
    elif rv['k'] == 'aggregate' and rv.get('agg') == 'tuple' and rv['fields']:
        val = ('tup', [_ev_value(env, f) for f in rv['fields']])
    elif rv['k'] == 'discr':
        src = _ev_value(env, {'k': 'copy', 'place': rv['place']})
        if src and src[0] == 'agg':
            val = ('int', src[1])
    if val is None:
        env.pop(L, None)
    else:
        env[L] = val


def _ev_switch(env, t):
    """the successor a switch takes under env, or None"""
    if t['k'] != 'switch':
        return None
    v = _ev_value(env, t['discr'])
    if v and v[0] == 'int':
        tg = [y for (val, y) in t['targets'] if val == v[1]]
        return tg[0] if tg else t['otherwise']
    return None


def path_env(body, path):
    """abstract values of plain locals after running the blocks of `path` in order (calls forget their destination)"""
    env = {}
    banned = getattr(body, '_addr_taken', None)
    if banned is None:
        banned = _address_taken(body.blocks)
        try:
            body._addr_taken = banned
        except Exception:
            pass
    for bb in path:
        blk = body.blocks[bb]
        for s_ in blk['stmts']:
            _ev_stmt(env, s_, banned)
        t = blk['term']
        if t['k'] == 'call' and not t['dest']['proj']:
            env.pop(t['dest']['local'], None)
    return env


def thread_jumps(body, max_rounds=6):
    """Jump threading on a body JSON (used only where something was spliced in): a block that gives a plain local a constant or a
    known enum variant and then runs, through straight-line blocks without calls, into a switch on exactly that (the spliced-in
    helper `return Ok(true)` followed by the caller's `match`), is connected to the arm the switch will take. The straight-line blocks
    in between are copied for that edge. Nothing else changes; the number of calls / atomic sites stays the same."""
    import copy
    blocks = body['blocks']
    banned = _address_taken(blocks)
    ev_stmt = lambda env, s: _ev_stmt(env, s, banned)

    changed_any = False
    for _ in range(max_rounds):
        changed = False
        n0 = len(blocks)
        for p in range(n0):
            t = blocks[p]['term']
            if t['k'] != 'goto' or blocks[p]['cleanup']:
                continue
            env = {}
            for s in blocks[p]['stmts']:
                ev_stmt(env, s)
            if not env:
                continue
            chain = []
            x = t['target']
            decided = None
            while len(chain) < 5 and x not in chain and x != p:
                chain.append(x)
                for s in blocks[x]['stmts']:
                    ev_stmt(env, s)
                tx = blocks[x]['term']
                if tx['k'] == 'goto':
                    x = tx['target']
                    continue
                decided = _ev_switch(env, tx)
                break
            if decided is None:
                continue
            # copy the chain for this edge
            base = len(blocks)
            for i, c in enumerate(chain):
                nb = copy.deepcopy(blocks[c])
                nb['term'] = {'k': 'goto', 'target': base + i + 1 if i + 1 < len(chain) else decided, 'span': blocks[c]['term']['span']}
                blocks.append(nb)
            t['target'] = base
            changed = True
            changed_any = True
            if len(blocks) > 1500:
                return changed_any
        if not changed:
            break
    return changed_any


def inline_unknown_helpers(j, known_names, helper_keys=None, max_rounds=3):
    """j: crate JSON. Inline calls to crate-local fn items the rules have never seen: those in helper_keys
    (functions that could not be aligned with a function of the reference tree) or, without a reference,
    those whose name is not in known_names."""
    import copy
    by_key = {b['key']: b for b in j['bodies']}
    helpers = {}
    for b in j['bodies']:
        unknown = (b['key'] in helper_keys) if helper_keys is not None else (b.get('name') and b['name'] not in known_names)
        if b['kind'] in ('Fn', 'AssocFn') and b.get('name') and unknown and not b.get('impl_trait') \
                and len(b['blocks']) <= 80:
            helpers[b['key']] = b
    if not helpers:
        return set()
    originals = {k: copy.deepcopy(v) for k, v in helpers.items()}
    used = set()
    # A known function that has become a pure forwarder to a new helper (`fn load(&self, s) { Self::protect(s) }`): the helper IS that
    # function now. Its other callers are shown to the rules as callers of the known function (which is what they were before the
    # body moved), the helper's body is spliced into the forwarder only.
    forward = {}
    for b in j['bodies']:
        if b['key'] in helpers or b['kind'] not in ('Fn', 'AssocFn') or len(b['blocks']) > 5:
            continue
        calls = [(bb, blk['term']) for bb, blk in enumerate(b['blocks']) if blk['term']['k'] == 'call' and not blk['cleanup']]
        if len(calls) != 1:
            continue
        bb, t = calls[0]
        hk = t['callee'].get('resolved') or t['callee'].get('key')
        if hk not in helpers:
            continue
        defs = defaultdict(list)
        for blk in b['blocks']:
            for st in blk['stmts']:
                if st['k'] == 'assign' and not st['dest']['proj']:
                    defs[st['dest']['local']].append(st['rv'])

        def root(op, depth=0):
            if op.get('k') not in ('copy', 'move') or depth > 4:
                return None
            l = op['place']['local']
            if 1 <= l <= b['arg_count'] and all(e['k'] == 'deref' for e in op['place']['proj']):
                return l
            if op['place']['proj'] or len(defs.get(l, ())) != 1:
                return None
            rv = defs[l][0]
            if rv['k'] in ('use', 'cast'):
                return root(rv['op'], depth + 1)
            if rv['k'] in ('ref', 'rawptr') and all(e['k'] == 'deref' for e in rv['place']['proj']):
                return root({'k': 'copy', 'place': {'local': rv['place']['local'], 'proj': []}}, depth + 1)
            return None
        params = [root(a) for a in t['args']]
        if None in params or params != sorted(set(params)):
            continue
        d = t['dest']
        to_ret = (d['local'] == 0 and not d['proj']) or any(
            st['k'] == 'assign' and st['dest']['local'] == 0 and not st['dest']['proj'] and st['rv']['k'] == 'use' and st['rv']['op'].get('k') in ('copy', 'move')
            and st['rv']['op']['place']['local'] == d['local'] for blk in b['blocks'] for st in blk['stmts'])
        if not to_ret and b['locals'][0]['ty'] != '()':
            continue
        forward.setdefault(hk, []).append((b, params))
    forward = {hk: v[0] for hk, v in forward.items() if len(v) == 1}
    for hk, (fb, params) in forward.items():
        hb = originals[hk]
        if params == list(range(1, fb['arg_count'] + 1)) and hb['arg_count'] == fb['arg_count']:
            # every parameter is handed on in place: the forwarder simply takes the helper's body (its parameters stay parameters:
            # `self` is still local 1 for the rules that follow a by-value `self`)
            fb['blocks'] = copy.deepcopy(hb['blocks'])
            fb['locals'] = copy.deepcopy(hb['locals'])
            fb.setdefault('inlined', []).append(hb['pretty'])
            used.add(hk)
    for hk, (fb, params) in forward.items():
        tr = fb.get('impl_trait')
        desc = {'key': (tr + '::' + fb['name']) if tr else fb['key'], 'pretty': fb['pretty'], 'path': strip_generics(fb['pretty']), 'krate': j['crate'], 'name': fb['name'],
                'args': [], 'trait': tr, 'trait_pretty': (tr or '').replace(j['crate'] + '::', '', 1) if tr else None, 'self_ty': fb.get('impl_self_ty'),
                'self_is_param': False, 'self_adt': fb.get('impl_self_adt'), 'resolved': fb['key'], 'resolved_pretty': fb['pretty'], 'resolved_kind': 'item',
                'resolved_krate': j['crate'], 'forwarded_from': hk}
        for b in j['bodies']:
            if b is fb or b['key'] == hk:
                continue
            for blk in b['blocks']:
                t = blk['term']
                if t['k'] == 'call' and (t['callee'].get('resolved') or t['callee'].get('key')) == hk:
                    new_args = []
                    for pi in range(1, fb['arg_count'] + 1):
                        if pi in params:
                            new_args.append(t['args'][params.index(pi)])
                        else:
                            new_args.append({'k': 'const', 'c': {'text': '<receiver of the forwarding function>'}})
                    t['args'] = new_args
                    t['arg_tys'] = [fb['locals'][pi]['ty'] for pi in range(1, fb['arg_count'] + 1)]
                    t['callee'] = dict(desc)
    for _ in range(max_rounds):
        changed = False
        for b in j['bodies']:
            for bb in range(len(b['blocks'])):
                t = b['blocks'][bb]['term']
                if t['k'] != 'call':
                    continue
                c = t['callee']
                ck = c.get('resolved') or c.get('key')
                if ck in helpers and ck != b['key'] and t.get('target') is not None or (ck in helpers and ck != b['key']):
                    if len(b['blocks']) > 600:
                        continue
                    _inline_one(b, bb, copy.deepcopy(originals[ck]))
                    used.add(ck)
                    changed = True
        if not changed:
            break
    return used
