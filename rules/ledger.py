"""LEDGER / LEDGER-UNWIND / INC-PROTECTED / BYPASS: an effect analysis over the unsafe bridge between
raw pointers and owned pointer values (DESIGN.md §3.2, §3.4).

Balance = reference counts the running function holds as *raw* pointers (outside Rust's automatic
drop). Every path from entry to a return must total 0 (or the function's declared exit); every loop
back edge must be reached with the balance of its header; on every unwind edge out of a call that
can run user code the balance must be 0 when `resume` is reached.
"""
import re
from . import util as U
from . import ordering as O
from . import progress as P

PROT = 'arc_swap::strategy::hybrid::HybridProtection'
CONT = 'arc_swap::ArcSwapAny'

# functions whose own bodies are primitives of the ledger (their effect is in the weight table and
# their shape is checked by REFCNT-SIBLINGS / PROT-NEW)
EXEMPT_PREFIX = ('arc_swap::ref_cnt::RefCnt::',)


def _is_refcnt_impl(b):
    return (b.j.get('impl_trait') or '').endswith('ref_cnt::RefCnt')


def _refcnt(t, *names):
    c = t['callee']
    return c.get('name') in names and (c.get('trait') or '').endswith('ref_cnt::RefCnt')


def _ty_is_owned_ptr(ty):
    """type of an owned counted pointer value: the generic T / Self, or a std pointer kind"""
    ty = ty.strip()
    return U.is_refcnt_param(ty) or any(ty == 'std::option::Option<%s>' % p_ for p_ in U.REFCNT_PARAMS) or ty.startswith(('std::sync::Arc<', 'std::rc::Rc<', 'std::sync::Weak<', 'std::rc::Weak<', 'std::option::Option<T>', 'std::option::Option<std::sync::Arc<', 'std::option::Option<std::rc::Rc<'))


def _arg_ty(t, i):
    tys = t.get('arg_tys') or []
    return tys[i] if i < len(tys) else ''


class Ledger:
    def __init__(self, fx, b):
        self.fx = fx
        self.cx = O.ctx(fx)
        self.b = b
        self.notes = []
        self.prims = 0
        self._edge = {}
        self._callw = {}
        self._prepare()

    # ---- weights of call terminators (applied on the normal-return edge)
    def call_weight(self, bb, t):
        b = self.b
        c = t['callee']
        nm = c.get('name')
        path = c.get('path', '')
        if _refcnt(t, 'inc', 'into_ptr'):
            return (+1, 'RefCnt::%s' % nm)
        if _refcnt(t, 'dec', 'from_ptr'):
            return (-1, 'RefCnt::%s' % nm)
        if nm == 'forget' and path.endswith('mem::forget'):
            ty = _arg_ty(t, 0)
            if _ty_is_owned_ptr(ty):
                return (+1, 'mem::forget(owned pointer)')
            return (0, 'mem::forget(%s)' % ty)
        if 'mem::ManuallyDrop' in path or 'mem::manually_drop::ManuallyDrop' in path:
            if nm == 'new' and _ty_is_owned_ptr(_arg_ty(t, 0)):
                return (+1, 'ManuallyDrop::new(owned pointer)')
            if nm == 'drop':
                return (-1, 'ManuallyDrop::drop')
        if nm == 'read' and path.endswith('ptr::read'):
            gen = (c.get('args') or [''])[0]
            if _ty_is_owned_ptr(gen):
                return (-1, 'ptr::read::<owned pointer>')
        if nm == 'new' and 'HybridProtection' in path and c.get('krate') == 'arc_swap':
            from .protect import new_arg_positions
            d = U.def_rvalue(b, t['args'][new_arg_positions(t)[1]])
            if d and d[0] == 'rv' and d[3]['k'] == 'aggregate' and d[3].get('adt') == 'core::option::Option':
                return ((-1, 'protection(ptr, None) takes the count') if d[3]['variant'] == 'None' else (0, 'protection(ptr, Some(debt)) borrows'))
            return (None, 'HybridProtection::new with a debt that is not literally Some/None')
        if nm == 'new' and U.is_atomic_callee(c) and 'atomic::Atomic<*mut' in (b.local_ty(t['dest']['local']) if not t['dest']['proj'] else ''):
            # a pointer going into a fresh cell
            src = b.origins(t['args'][0])
            if src and all(o[0] == 'call' and U.callee_name(b.term(o[1])) in ('null_mut', 'null') for o in src):
                return (0, 'cell created empty (null)')
            ty = b.local_ty(t['dest']['local'])
            if 'RefCnt>::Base' in ty or ty.startswith('std::sync::atomic::Atomic<*mut T>'):
                return (-1, 'count moved into a new cell')
        if nm == 'load' and U.is_atomic_callee(c):
            s = U.Site(b, bb, t)
            if s.cls == 'handover':
                return (+1, 'count received through the hand-over envelope')
        # the container given away by value (`self.into_inner()` from a new by-value method): its count goes with it
        if b.arg_count >= 1 and b.local_ty(1).startswith('ArcSwapAny<') and c.get('krate') == 'arc_swap':
            for a in t['args']:
                if a['k'] == 'move' and not a['place']['proj']:
                    src = a['place']['local']
                    for _ in range(3):
                        if src == 1:
                            return (-1, 'the container (with its count) moves into %s' % nm)
                        ds = [x for x in b.assigns().get(src, ()) if not x[4]]
                        if len(ds) == 1 and ds[0][2] == 'stmt' and ds[0][3]['k'] == 'use' and ds[0][3]['op'].get('k') == 'move' and not ds[0][3]['op']['place']['proj']:
                            src = ds[0][3]['op']['place']['local']
                        else:
                            break
        return None

    def _prepare(self):
        b = self.b
        for bb, t in b.calls():
            w = self.call_weight(bb, t)
            if w is not None:
                self._callw[bb] = w
                self.prims += 1
        for bb in range(b.n):
            if b.term(bb)['k'] != 'switch':
                continue
            for succ in b.term_succs(bb, False):
                evs = self._edge_events(bb, succ)
                if evs:
                    self._edge[(bb, succ)] = evs
        self.prims += len({e[0] for evs in self._edge.values() for e in evs})

    def _edge_events(self, bb, succ):
        """[(key, weight, note, flag)] — each key is applied at most once per path"""
        return self._events_from_facts(U.edge_facts(self.b, bb, succ))

    # pure predicate -> (family, variant index it asserts when true, variant index when false); None = not a variant question
    PURE = {'is_ok': ('variant', 0, 1), 'is_err': ('variant', 1, 0), 'is_some': ('variant', 1, 0), 'is_none': ('variant', 0, 1), 'is_null': ('null', True, False)}

    def pure_predicates(self, bb, succ):
        b = self.b
        key = ('pp', bb, succ)
        if key in self._edge:
            return self._edge[key]
        out = []
        for f in U.edge_facts(b, bb, succ):
            if f[0] == 'bool' and f[1] and f[1][0] == 'call':
                t = f[1][2]
                nm = U.callee_name(t)
                if nm in self.PURE and t['args'] and ('result::Result' in t['callee'].get('path', '') or 'option::Option' in t['callee'].get('path', '') or 'ptr::' in t['callee'].get('path', '')):
                    fam, when_true, when_false = self.PURE[nm]
                    src = frozenset(b.origins(t['args'][0]))
                    if src:
                        out.append((('pure', fam, src), when_true if f[2] else when_false))
            elif f[0] == 'variant':
                # `if let Err(_) = x`, `matches!(x, Err(_))`, `match x {..}` asked again about the same value
                src = frozenset(b.origins(f[1]))
                if src and all(o[0] == 'call' for o in src):
                    out.append((('pure', 'variant', src), f[2]))
        self._edge[key] = out
        return out

    def path_events(self, bb, succ, path):
        """A boolean that is assigned in several places (`let owned = match .. { None => true, Some(d) => !d.pay() }`) tells
        nothing on the edge alone; along one *path* the assignment that was executed last is known. Returns 'infeasible'
        when that assignment is a constant contradicting the edge, else the events of the facts it implies."""
        b = self.b
        t = b.term(bb)
        if t['k'] != 'switch' or t.get('discr_ty') != 'bool':
            return []
        op = t['discr']
        if op['k'] not in ('copy', 'move') or op['place']['proj']:
            return []
        v = U.switch_edge_value(b, bb, succ)
        vals = [x for x, _ in t['targets']]
        if v == 'otherwise':
            truth = True if vals == [0] else False if vals == [1] else None
        else:
            truth = False if v == [0] else True if v == [1] else None
        if truth is None:
            return []
        local = op['place']['local']
        # the definition that was executed LAST on this path, looking through plain copies (each hop restricted to the part of
        # the path before the copy): `let returned = opt.map_or(false, |d| d.pay(..)); if !returned {..}` after the combinator was
        # spelled out has one assignment per arm and a copy after the join
        upto = len(path)
        for hop in range(8):
            defs = [x for x in b.assigns().get(local, []) if not x[4]]
            if not defs or len(defs) != len(b.assigns().get(local, [])):
                return []
            by_bb = {}
            for d in defs:
                by_bb.setdefault(d[0], []).append(d)
            found = None
            for pi in range(upto - 1, -1, -1):
                if path[pi] in by_bb:
                    found = (pi, by_bb[path[pi]][-1])
                    break
            if found is None:
                return []
            pi, d = found
            if d[2] == 'call':
                return self._events_from_facts([('bool', ('call', d[0], d[3]), truth)])
            if d[2] != 'stmt':
                return []
            rv = d[3]
            if rv['k'] == 'use' and rv['op']['k'] == 'const' and 'int' in rv['op']['c']:
                return 'infeasible' if bool(rv['op']['c']['int']) != truth else []
            if rv['k'] == 'use' and rv['op']['k'] in ('copy', 'move') and not rv['op']['place']['proj']:
                local = rv['op']['place']['local']
                upto = pi + 1
                continue
            if rv['k'] == 'unop' and rv['op'] == 'Not' and rv['arg'].get('k') in ('copy', 'move') and not rv['arg']['place']['proj']:
                local = rv['arg']['place']['local']
                truth = not truth
                upto = pi + 1
                continue
            if rv['k'] == 'use':
                return self._events_from_facts(U.bool_facts(b, rv['op'], truth))
            if rv['k'] == 'binop':
                return self._events_from_facts([('bool', ('rv', d[0], d[1], rv), truth)])
            return []
        return []

    def _events_from_facts(self, facts):
        b = self.b
        out = []
        for f in facts:
            if f[0] == 'bool' and f[1] and f[1][0] == 'call':
                t = f[1][2]
                cbb = f[1][1]
                truth = f[2]
                nm = U.callee_name(t)
                if nm == 'pay' and 'debt::Debt' in t['callee'].get('path', ''):
                    if self._writer_side(t):
                        if truth:
                            out.append((('pay', cbb), -1, 'a pre-paid count is donated to the paid slot', None))
                    elif truth:
                        out.append((('pay', cbb), 0, 'debt returned: pointer no longer protected', 'paid_back'))
                    else:
                        out.append((('pay', cbb), +1, 'a writer paid our debt: we own a count', None))
                elif nm == 'is_null' and 'ptr::' in t['callee'].get('path', '') and truth:
                    # on this edge the tested pointer is NULL: conversions of it move no count (the empty value has none)
                    out.append((('null', cbb, frozenset(b.origins(t['args'][0]))), 0, 'pointer known to be NULL', None))
                elif nm in ('is_ok', 'is_err'):
                    for o in b.origins(t['args'][0]):
                        if o[0] == 'call' and U.is_atomic_callee(b.term(o[1])['callee']):
                            s = U.Site(b, o[1], b.term(o[1]))
                            if s.cls == 'control' and s.op.startswith('compare_exchange') and truth == (nm == 'is_ok'):
                                out.append((('handover', o[1]), -1, 'replacement handed over to the reader', None))
            elif f[0] == 'variant':
                l, idx = f[1], f[2]
                for o in b.origins(l):
                    if o[0] != 'call':
                        continue
                    ct = b.term(o[1])
                    nm = U.callee_name(ct)
                    if U.is_atomic_callee(ct['callee']):
                        s = U.Site(b, o[1], ct)
                        if s.cls == 'control' and s.op.startswith('compare_exchange') and idx == 0:
                            out.append((('handover', o[1]), -1, 'replacement handed over to the reader', None))
                    elif nm == 'take' and ct['args']:
                        r, fl = b.ref_path(ct['args'][0])
                        ff = [x for x in fl if x['k'] == 'field']
                        if ff and ff[-1]['adt'] == PROT and ff[-1]['name'] == 'debt' and r == ('arg', 1) and idx == 0:
                            out.append((('entry', o[1]), +1, 'self owns its count (debt is None): entry credit', None))
                        elif ff and ff[-1]['adt'] == PROT and ff[-1]['name'] == 'debt' and r == ('arg', 1) and idx == 1:
                            out.append((('took', o[1]), 0, 'the debt was taken out of self (self.debt is None from here on)', None))
                    elif nm in ('confirm_helping', 'confirm') and ct['callee'].get('krate') == 'arc_swap' and idx == 1:
                        out.append((('handover_in', o[1]), +1, 'Err(replacement): a count handed over by a helper', None))
        return out

    def _handover_edges(self, bb, is_ok):
        pass

    def _writer_side(self, pay_term):
        b = self.b
        def from_next(t):
            return any(o[0] == 'call' and U.callee_name(b.term(o[1])) == 'next' for o in b.origins(t['args'][0]))
        for o in b.origins(pay_term['args'][0]):
            if o[0] == 'call' and U.callee_name(b.term(o[1])) == 'next':
                return True
            if o[0] == 'call' and U.callee_name(b.term(o[1])) in ('helping_slot', 'fast_slots') and b.term(o[1])['callee'].get('krate') == 'arc_swap':
                # a split walk: `for s in node.fast_slots() { pay(s) }; pay(node.helping_slot())` — the direct pay belongs to
                # the same writer-side walk when the body also pays slots yielded by an iterator
                if any(U.callee_name(t) == 'pay' and 'debt::Debt' in t['callee'].get('path', '') and from_next(t) for _, t in b.calls(include_cleanup=False)):
                    return True
            if o[0] == 'arg' and b.kind == 'Closure':
                # the slot is the item of an internal iteration (`.for_each(|slot| ..)`) in the parent
                parent = self.fx.lib.by_key.get(b.j.get('parent'))
                if parent is not None:
                    for bb, t in parent.calls(include_cleanup=False):
                        if U.callee_name(t) == 'for_each' and len(t['args']) == 2:
                            d = U.def_rvalue(parent, t['args'][1])
                            if d and d[0] == 'rv' and d[3].get('closure') == b.key:
                                return True
        return False

    # ---- aggregates
    def stmt_weight(self, bb, i, s):
        if s['k'] != 'assign' or s['rv']['k'] != 'aggregate':
            return None
        rv = s['rv']
        b = self.b
        if rv.get('adt') == PROT:
            idx = rv['field_names'].index('debt')
            dop = rv['fields'][idx]
            d = U.def_rvalue(b, dop)
            if d and d[0] == 'rv' and d[3]['k'] == 'aggregate' and d[3].get('adt') == 'core::option::Option':
                return (-1, 'protection{debt: None} takes the count') if d[3]['variant'] == 'None' else (0, 'protection{debt: Some} borrows')
            return (None, 'protection aggregate with a debt that is not literally Some/None')
        return None

    # ---- entry credit / container drops
    def entry(self):
        b = self.b
        if b.arg_count >= 1:
            ty = b.local_ty(1)
            if ty.startswith('ArcSwapAny<') or ty.startswith('&mut ArcSwapAny<') and b.name == 'drop':
                return (+1, 'the container holds one count')
        return (0, '')

    def drop_weight(self, bb, t, cleanup):
        b = self.b
        ty = t['ty']
        l = t['place']['local']
        if ty.startswith('ArcSwapAny<') and l == 1 and not t['place']['proj']:
            return (-1, 'drop of the container releases its count')
        if cleanup and ty.startswith('strategy::hybrid::HybridProtection<') and l == 1 and not t['place']['proj']:
            return (-1, 'cleanup drop of self releases the count it owns')
        return None


def may_unwind_bodies(fx):
    """lib bodies that can (transitively) run user code: trait methods on type parameters other
    than the four RefCnt conversions, closure parameters, drops of generic values, RefCnt::dec"""
    lib = fx.lib
    direct = set()
    for b in lib.bodies:
        for bb, t in b.calls(include_cleanup=False):
            if user_call_kind(t):
                direct.add(b.key)
        for bb, t in b.drops(include_cleanup=False):
            if t.get('has_param'):
                direct.add(b.key)
    cx = O.ctx(fx)
    out = set()
    for b in lib.bodies:
        if cx.summ.reach(b.key) & direct:
            out.add(b.key)
    return out, direct


NOUNWIND_REFCNT = ('inc', 'as_ptr', 'into_ptr', 'from_ptr')


def user_call_kind(t):
    """classification of a call terminator as user code (may panic), or None"""
    c = t['callee']
    if (c.get('trait') or '').endswith('ref_cnt::RefCnt'):
        if c.get('name') in NOUNWIND_REFCNT:
            return None
        if c.get('name') == 'dec':
            return 'pointee destructor (RefCnt::dec)'
        return None
    if (c.get('trait') or '').startswith('arc_swap::'):
        return None  # trait of this crate (sealed): its impls are analysed as transitive callees
    if c.get('self_is_param') or c.get('key') in ('<fnptr>', '<indirect>'):
        tr = c.get('trait_pretty', '')
        if tr.endswith(('ops::Fn', 'ops::FnMut', 'ops::FnOnce')):
            return 'user closure'
        if tr.endswith('clone::Clone'):
            return 'Clone of a user type'
        if tr.endswith('ops::Deref') or tr.endswith('borrow::Borrow') or tr.endswith('ops::DerefMut'):
            return None  # accessor of a smart pointer: trusted not to panic (not in the property's list of user code)
        return 'trait method on a type parameter (%s)' % tr
    if c.get('name') == 'drop' and ('mem::ManuallyDrop' in c.get('path', '') or c.get('path', '').endswith('mem::drop')):
        tys = t.get('arg_tys') or ['']
        a = (c.get('args') or [''])[0]
        if a in ('T', 'Self') or '<T' in a or 'T>' in a or ' T' in a or a.endswith('Guard<T, S>') or U.mentions_refcnt_param(a):
            return 'drop of a generic value'
        if re.fullmatch(r'[A-Z][A-Za-z0-9]*', a or ''):
            # a bare type parameter (`current: C` handed in by value: a Guard, an Arc — its destructor may be the pointee's)
            return 'drop of a value of the caller\'s type %s' % a
    return None


def analyse(fx, b, col, rule='LEDGER', unwind_rule='LEDGER-UNWIND', declared_exit=None, unwind=True):
    lg = Ledger(fx, b)
    fn = b.fname
    mu, direct = may_unwind_bodies(fx)
    lib = fx.lib
    results = dict(paths=0, exits=set(), prims=lg.prims)
    viol = []
    unwind_viol = {}
    inc_viol = []
    e0 = lg.entry()
    mut_self_prot = b.arg_count >= 1 and b.local_ty(1).startswith('&mut strategy::hybrid::HybridProtection<') and b.name != 'drop'
    start = (0, e0[0], False)
    # DFS over acyclic normal paths
    stack = [(0, e0[0], False, {0: e0[0]}, (0,), frozenset())]
    npaths = 0
    while stack:
        bb, bal, paid, seen, path, applied = stack.pop()
        npaths += 1
        if npaths > 200000:
            col.fail(rule, '%s|path explosion' % fn, 'more than 200000 paths')
            return results
        # statements
        for i, s in enumerate(b.stmts(bb)):
            w = lg.stmt_weight(bb, i, s)
            if w is not None:
                if w[0] is None:
                    viol.append((b.loc(bb, i), w[1], path))
                else:
                    bal += w[0]
        t = b.term(bb)
        k = t['k']
        if k == 'return':
            results['paths'] += 1
            results['exits'].add(bal)
            exp = 0
            if declared_exit is not None:
                exp = declared_exit(b, path)
            elif mut_self_prot and any(key[0] == 'entry' or key[0] == 'took' for key in applied):
                # a `&mut self` method that took the debt leaves a protection that owns its count (debt = None): +1 stays in self
                exp = 1
            else:
                # a function that passes a received hand-over on to its caller inside Err(..)
                for key in applied:
                    if key[0] == 'handover_in' and ('call', key[1]) in b.origins(0) and b.local_ty(0).startswith('std::result::Result<'):
                        exp += 1
            if bal != exp:
                viol.append((b.loc(bb), 'path to return ends with balance %+d (expected %+d)' % (bal, exp), path))
            continue
        if k in ('unreachable', 'resume', 'terminate'):
            continue
        after = bal
        cw = None
        if k == 'call':
            cw = lg._callw.get(bb)
            if cw is not None and cw[0] is not None and _refcnt(t, 'from_ptr', 'dec', 'inc') and t['args']:
                src = frozenset(b.origins(t['args'][0], through_calls=lambda tt: [0] if U.callee_name(tt) in ('cast', 'cast_const', 'cast_mut') else None))
                if src and any(key[0] == 'null' and key[2] == src for key in applied):
                    cw = (0, cw[1] + ' of a pointer known to be NULL on this path: no count')
            if cw is not None:
                if cw[0] is None:
                    viol.append((b.loc(bb), cw[1], path))
                else:
                    after = bal + cw[0]
            if _refcnt(t, 'inc') and paid and bal <= 0:
                inc_viol.append((b.loc(bb), path))
            # diverging calls (panics) end the path
        elif k == 'drop':
            dw = lg.drop_weight(bb, t, False)
            if dw:
                after = bal + dw[0]
        # unwind edge
        if unwind and k in ('call', 'drop') and not b.is_cleanup(bb):
            kind = None
            if k == 'call':
                kind = user_call_kind(t)
                if kind:
                    kind = 'direct: ' + kind
                else:
                    ck = t['callee'].get('resolved') or t['callee'].get('key')
                    if ck in mu and ck in lib.by_key:
                        kind = 'transitive: %s can reach user code' % lib.by_key[ck].fname
            else:
                if t.get('has_param') and not t['ty'].startswith(('debt::', 'strategy::hybrid::HybridProtection')):
                    kind = 'direct: drop of a generic value (%s)' % t['ty']
                elif t['ty'].startswith('strategy::hybrid::HybridProtection'):
                    kind = 'direct: drop of a protection (may release the last count)'
            if k == 'call' and (t['callee'].get('trait') or '').endswith('ref_cnt::RefCnt'):
                kind = user_call_kind(t)
                kind = ('direct: ' + kind) if kind else None
            elif k == 'call' and (t['callee'].get('trait') or '').startswith('arc_swap::') and not t['callee'].get('resolved') \
                    and not (t['callee'].get('trait') or '').endswith('ref_cnt::RefCnt'):
                # sealed strategy trait: all impls are in this crate
                nm = t['callee'].get('name')
                impls = [x for x in lib.bodies if x.name == nm and (x.j.get('impl_trait') or '') == t['callee'].get('trait')]
                kind = ('transitive: %s (trait of this crate) can reach user code' % nm) if any(x.key in mu for x in impls) else None
            if kind and k == 'call' and U.callee_name(t) == 'wait_for_readers' and _exclusive_cell(b, t):
                # the cell is reached through get_mut (exclusive access): no reader of this cell can be in its
                # intent window, so the helper never produces a replacement, and the phantom copy dropped at the
                # end of pay_all is never the last owner (the count taken out is still held): no user code runs
                kind = None
            if kind:
                u = t.get('unwind')
                # effect of the unwinding operation itself: a release completes before the panic propagates
                ub = bal
                if k == 'call' and cw and cw[0] is not None and (_refcnt(t, 'dec') or U.callee_name(t) == 'drop' or cw[1].startswith('the container (with its count) moves')):
                    ub = bal + cw[0]
                if k == 'drop':
                    dw = lg.drop_weight(bb, t, False)
                    if dw:
                        ub = bal + dw[0]
                if isinstance(u, int):
                    x = u
                    guard = 0
                    while guard < 200:
                        guard += 1
                        tt = b.term(x)
                        if tt['k'] == 'drop':
                            dw = lg.drop_weight(x, tt, True)
                            if dw:
                                ub += dw[0]
                            x = tt['target']
                        elif tt['k'] == 'goto':
                            x = tt['target']
                        elif tt['k'] == 'switch':
                            # drop flag: follow the branch selected by the last constant written on this path
                            nxt = _drop_flag_target(b, tt, path)
                            if nxt is None:
                                break
                            x = nxt
                        elif tt['k'] == 'call':
                            w2 = lg.call_weight(x, tt)
                            if w2 and w2[0] is not None:
                                ub += w2[0]
                            if tt.get('target') is None:
                                break
                            x = tt['target']
                        else:
                            break
                uexp = 1 if (mut_self_prot and any(key[0] in ('entry', 'took') for key in applied)) else 0
                if u != 'unreachable' and u != 'terminate' and ub != uexp:
                    key = (bb, kind.split(':')[0])
                    if key not in unwind_viol:
                        unwind_viol[key] = (b.loc(bb), kind, ub, path, t)
        # successors
        for succ in b.term_succs(bb, unwind=False):
            nb = after
            npaid = paid
            napplied = applied
            # pure predicates of one value asked twice (`if swapped.is_err() {..} ..; if swapped.is_err() {..}`) answer the same:
            # a path that takes contradicting outcomes is infeasible
            if k == 'switch':
                # a value built earlier on this very path (a flag, `Some(x)` / `None`, a tuple of them) decides the branch
                from .mir import path_env, _ev_switch
                want = _ev_switch(path_env(b, path), t)
                if want is not None and want != succ:
                    continue
                contradiction = False
                for pk, pv in lg.pure_predicates(bb, succ):
                    if any(isinstance(x, tuple) and len(x) == 2 and x[0] == pk and x[1] != pv for x in napplied):
                        contradiction = True
                        break
                    napplied = napplied | {(pk, pv)}
                if contradiction:
                    continue
            evs = lg._edge.get((bb, succ), ())
            if not evs and k == 'switch':
                evs = lg.path_events(bb, succ, path)
                if evs == 'infeasible':
                    continue
            for (key, w, note, flag) in evs:
                if key in napplied:
                    continue
                napplied = napplied | {key}
                nb += w
                if flag == 'paid_back':
                    npaid = True
            if succ in seen:
                if seen[succ] != nb:
                    viol.append((b.loc(succ), 'loop back edge reached with balance %+d, header had %+d' % (nb, seen[succ]), path + (succ,)))
                continue
            ns = dict(seen)
            ns[succ] = nb
            stack.append((succ, nb, npaid, ns, path + (succ,), napplied))
    # report
    if viol:
        seen_msgs = set()
        for (loc, msg, path) in viol:
            if (loc, msg) in seen_msgs:
                continue
            seen_msgs.add((loc, msg))
            col.fail(rule, '%s|%s' % (fn, msg.split(' (')[0][:80]), msg, loc, path=['bb%d' % x for x in path])
    else:
        col.ok(rule, '%s|balanced' % fn, '%d path(s), %d primitive site(s), all totals %s' % (results['paths'], lg.prims, sorted(results['exits'])))
    for (loc, path) in inc_viol[:1]:
        col.fail('INC-PROTECTED', '%s|inc after pay-back' % fn, 'RefCnt::inc on a pointer whose debt was already returned and for which no count is held: the value may be gone', loc, path=['bb%d' % x for x in path])
    if unwind:
        for (bb, kd), (loc, kind, ub, path, t) in sorted(unwind_viol.items()):
            what = t['callee'].get('name') if t['k'] == 'call' else 'drop'
            col.fail(unwind_rule, '%s|%s|%s' % (fn, kd, what),
                     'if `%s` unwinds here (%s) the function holds %+d raw count(s) that no destructor on the unwind path gives back' % (what, kind, ub), loc)
    return results


def _exclusive_cell(b, t):
    """the storage argument of this wait_for_readers call is a cell that the same body accessed
    through Atomic::get_mut (i.e. the body has exclusive access to the container)"""
    if len(t['args']) < 3:
        return False
    r, f = b.ref_path(t['args'][2])
    for bb, tt in b.calls(include_cleanup=False):
        if U.callee_name(tt) == 'get_mut' and U.is_atomic_callee(tt['callee']) and b.dominates(bb, b_block_of(b, t)):
            r2, f2 = b.ref_path(tt['args'][0])
            if r2 == r and [x['name'] for x in f2] == [x['name'] for x in f]:
                return True
    return False


def b_block_of(b, term):
    for bb in range(b.n):
        if b.term(bb) is term:
            return bb
    return 0


def _drop_flag_target(b, tt, path):
    o = tt['discr']
    if o['k'] not in ('copy', 'move') or o['place']['proj']:
        return None
    l = o['place']['local']
    val = None
    for bb in path:
        for st in b.stmts(bb):
            if st['k'] == 'assign' and st['dest']['local'] == l and not st['dest']['proj'] and st['rv']['k'] == 'use':
                c = st['rv']['op']
                if c['k'] == 'const' and 'int' in c['c']:
                    val = c['c']['int']
    if val is None:
        return None
    for v, tb in tt['targets']:
        if v == val:
            return tb
    return tt['otherwise']


def ledger_functions(fx):
    out = []
    for b in fx.lib.bodies:
        if _is_refcnt_impl(b) or b.fname.startswith(EXEMPT_PREFIX) or b.fname == 'arc_swap::strategy::hybrid::HybridProtection::new':
            continue
        lg = Ledger(fx, b)
        n = lg.prims
        for bb in range(b.n):
            for i, s in enumerate(b.stmts(bb)):
                if lg.stmt_weight(bb, i, s) is not None:
                    n += 1
        if lg.entry()[0]:
            n += 1
        if n:
            out.append((b, n))
    return out


def _declared_confirm(b, path):
    # helping::Slots::confirm returns Err(replacement) carrying the handed-over count
    n = 0
    for bb in path:
        t = b.term(bb)
        if t['k'] == 'call' and U.is_atomic_callee(t['callee']) and U.callee_name(t) == 'load':
            s = U.Site(b, bb, t)
            if s.cls == 'handover':
                n += 1
    return n


DECLARED = {'arc_swap::debt::helping::Slots::confirm': _declared_confirm}


def rule_ledger(fx, col, unwind=False):
    fns = ledger_functions(fx)
    total = 0
    for b, n in fns:
        total += n
        analyse(fx, b, col, declared_exit=DECLARED.get(b.fname), unwind=unwind)
    col.floor('LEDGER', 'functions with count primitives', len(fns), 14)
    col.floor('LEDGER', 'primitive sites', total, 30)
    _prot_new_shape(fx, col)


def rule_ledger_unwind(fx, col):
    fns = ledger_functions(fx)
    sub = type(col)(col.cfg)
    for b, n in fns:
        analyse(fx, b, sub, declared_exit=DECLARED.get(b.fname), unwind=True)
    n_sites = 0
    for o in sub.obs:
        if o.rule == 'LEDGER-UNWIND':
            col.obs.append(o)
    # positive accounting: which user-call sites were examined
    mu, direct = may_unwind_bodies(fx)
    for b, n in fns:
        k = 0
        for bb, t in b.calls(include_cleanup=False):
            kind = user_call_kind(t)
            ck = t['callee'].get('resolved') or t['callee'].get('key')
            if kind or (ck in mu):
                k += 1
                n_sites += 1
        for bb, t in b.drops(include_cleanup=False):
            if t.get('has_param'):
                k += 1
                n_sites += 1
        bad = [o for o in sub.obs if o.rule == 'LEDGER-UNWIND' and o.key.startswith(b.fname + '|')]
        if not bad and k:
            col.ok('LEDGER-UNWIND', '%s|%d unwinding site(s)' % (b.fname, k), 'no raw count is held across any call that can unwind into user code')
    col.floor('LEDGER-UNWIND', 'may-unwind sites in ledger functions', n_sites, 15)


def _prot_new_shape(fx, col):
    bs = [b for b in fx.lib.bodies if b.fname == 'arc_swap::strategy::hybrid::HybridProtection::new']
    if not col.anchor('LEDGER', 'HybridProtection::new', len(bs) == 1):
        return
    b = bs[0]
    calls = [(bb, t) for bb, t in b.calls(include_cleanup=False)]
    names = [U.callee_name(t) for _, t in calls]
    ok = names == ['from_ptr', 'new']
    agg = None
    for bb in range(b.n):
        for s in b.stmts(bb):
            if s['k'] == 'assign' and s['rv']['k'] == 'aggregate' and s['rv'].get('adt') == PROT:
                agg = s['rv']
    good = ok and agg is not None
    if good:
        di = agg['field_names'].index('debt')
        pi = agg['field_names'].index('ptr')
        debt_arg = [i for i in range(1, b.arg_count + 1) if 'Option<' in b.local_ty(i) and 'Debt' in b.local_ty(i)]
        ptr_arg = [i for i in range(1, b.arg_count + 1) if b.local_ty(i).strip().startswith('*')]
        good = len(debt_arg) == 1 and len(ptr_arg) == 1 and b.origins(agg['fields'][di]) == {('arg', debt_arg[0])} and \
            {o[0] for o in b.origins(agg['fields'][pi])} == {'call'} and b.origins(calls[0][1]['args'][0]) == {('arg', ptr_arg[0])}
    col.add('LEDGER', 'HybridProtection::new|shape', good, 'new(ptr, debt) = Self { debt, ptr: ManuallyDrop::new(T::from_ptr(ptr)) } (calls: %s)' % names)


# --------------------------------------------------------------------------------------------
# BYPASS inventory

def rule_return_slot(fx, col):
    """C18: Rust does not drop a function's return value when a destructor of one of its locals / parameters panics while the
    function is returning (the value has already been moved into the return place, and the cleanup path of that drop does not
    touch it). A function that answers with something that carries a count or a debt slot (a protection, a guard, an owned
    pointer) must therefore destroy whatever can run user code BEFORE it moves its answer into the return place — otherwise a
    panicking pointee destructor (the rejected `new` of a refused compare_and_swap, a by-value `current`) leaks the answer: a
    borrow slot stays occupied, a count is never given back."""
    lib = fx.lib
    def carries(ty):
        # (also inside a wrapper: Result<T, Guard<..>>, Option<T>, a tuple)
        return 'HybridProtection<' in ty or bool(re.search(r'(^|[<(, ])Guard<', ty)) or U.is_refcnt_param(ty) or 'Protected' in ty or any(ty.startswith('std::option::Option<%s>' % p_) for p_ in U.REFCNT_PARAMS)
    n = 0
    # (helpers that are spliced into their callers for the other rules are functions with a return place of their own: looked at here)
    for b in lib.all_bodies:
        if not carries(b.local_ty(0)) or _is_refcnt_impl(b) or '::tests' in b.fname:
            continue
        n += 1
        asg = [(bb, None) for bb in range(b.n) if not b.is_cleanup(bb) for st in b.stmts(bb) if st['k'] == 'assign' and st['dest']['local'] == 0 and not st['dest']['proj']]
        asg += [(bb, b.term(bb).get('target')) for bb, t in b.calls(include_cleanup=False) if t['dest']['local'] == 0 and not t['dest']['proj']]
        bad = {}
        for a, nxt in asg:
            start = a if nxt is None else nxt
            if start is None:
                continue
            for x in sorted(b.reach_from(start, unwind=False)):
                if b.is_cleanup(x):
                    continue
                t = b.term(x)
                if x == a and nxt is not None:
                    continue
                kind = None
                if t['k'] == 'drop' and t.get('has_param') and t['place']['local'] != 0:
                    kind = 'drop of %s' % t['ty']
                elif t['k'] == 'call' and user_call_kind(t):
                    kind = user_call_kind(t)
                if not kind or not isinstance(t.get('unwind'), int):
                    continue
                y, seen, drops0 = t['unwind'], set(), False
                while y is not None and y not in seen:
                    seen.add(y)
                    tt = b.term(y)
                    if tt['k'] == 'drop' and tt['place']['local'] == 0:
                        drops0 = True
                    y = tt.get('target') if tt['k'] in ('drop', 'goto') else None
                if not drops0:
                    bad[kind] = b.loc(x)
        for kind, loc in sorted(bad.items()):
            col.fail('RETURN-SLOT', '%s|%s while returning' % (b.fname, kind),
                     'the answer (%s) is already in the return place when this runs; if it panics, nothing releases the answer (Rust does not drop the return value on that unwind path)' % b.local_ty(0), loc)
        if not bad:
            col.ok('RETURN-SLOT', '%s|nothing user-supplied is destroyed after the answer is in place' % b.fname, 'return type %s' % b.local_ty(0))
    col.floor('RETURN-SLOT', 'functions answering with a count-carrying value', n, 6)


def rule_bypass(fx, col):
    lib = fx.lib
    inv = {'forget': [], 'ptr::read': [], 'ManuallyDrop::new': [], 'ManuallyDrop::drop': [], 'discarded into_ptr': []}
    for b in lib.bodies:
        for bb, t in b.calls(include_cleanup=False):
            c = t['callee']
            p = c.get('path', '')
            nm = c.get('name')
            if nm == 'forget' and p.endswith('mem::forget'):
                inv['forget'].append((b, bb, t))
            elif nm == 'read' and p.endswith('ptr::read'):
                inv['ptr::read'].append((b, bb, t))
            elif 'ManuallyDrop' in p and nm == 'new':
                inv['ManuallyDrop::new'].append((b, bb, t))
            elif 'ManuallyDrop' in p and nm == 'drop':
                inv['ManuallyDrop::drop'].append((b, bb, t))
            elif _refcnt(t, 'into_ptr'):
                d = t['dest']['local']
                used = d == 0 or any(U.block_uses_local(b, x, d) for x in range(b.n))
                if not used:
                    inv['discarded into_ptr'].append((b, bb, t))
    for kind, lst in inv.items():
        for (b, bb, t) in lst:
            ok, why = _bypass_idiom(fx, kind, b, bb, t)
            col.add('BYPASS', '%s|%s' % (b.fname, kind), ok, why, b.loc(bb))
    col.floor('BYPASS', 'mem::forget sites', len(inv['forget']), 3)
    col.floor('BYPASS', 'ptr::read sites', len(inv['ptr::read']), 3)


def _bypass_idiom(fx, kind, b, bb, t):
    cx = O.ctx(fx)
    fn = b.fname
    if _is_refcnt_impl(b) and b.name == 'as_ptr':
        # the bracket read -> into_raw -> from_raw -> forget on the same pointer
        names = [U.callee_name(x) for _, x in b.calls(include_cleanup=False)]
        ok = names == ['read', 'into_raw', 'from_raw', 'forget']
        return ok, 'as_ptr bracket %s' % names
    if fn == '<strategy::hybrid::HybridProtection as strategy::sealed::Protected>::into_inner':
        take = [x for x, tt in b.calls(include_cleanup=False) if U.callee_name(tt) == 'take']
        rd = [x for x, tt in b.calls(include_cleanup=False) if U.callee_name(tt) == 'read' and tt['callee'].get('path', '').endswith('ptr::read')]
        fg = [x for x, tt in b.calls(include_cleanup=False) if U.callee_name(tt) == 'forget']
        ok = len(take) == 1 and len(rd) == 1 and len(fg) == 1 and b.dominates(take[0], rd[0]) and b.dominates(rd[0], fg[0]) and b.postdominates(fg[0], rd[0])
        return ok, 'debt.take() dominates ptr::read(self.ptr) dominates forget(self)'
    if fn == 'arc_swap::ArcSwapAny::into_inner' and kind == 'forget':
        w = [x for x, tt in b.calls(include_cleanup=False) if U.callee_name(tt) == 'wait_for_readers']
        fp = [x for x, tt in b.calls(include_cleanup=False) if _refcnt(tt, 'from_ptr')]
        ok = len(w) == 1 and len(fp) == 1 and b.dominates(w[0], bb) and b.dominates(bb, fp[0]) and b.origins(t['args'][0]) == {('arg', 1)}
        if not ok and len(w) == 1 and len(fp) == 1 and b.dominates(w[0], fp[0]) and b.dominates(fp[0], bb) and b.origins(t['args'][0]) == {('arg', 1)}:
            # the other order (the owned value is made first, `self` forgotten right after): nothing that could unwind in between,
            # or both the value and `self` would release the one count
            after = b.reach_from(b.term(fp[0])['target'], unwind=False) if b.term(fp[0]).get('target') is not None else set()
            between = [x for x in after if x != bb and bb in b.reach_from(x, unwind=False) and b.term(x)['k'] in ('call', 'drop', 'assert')]
            ok = not between and b.postdominates(bb, fp[0])
        return ok, 'wait_for_readers dominates forget(self) and from_ptr, nothing can unwind between the two'
    if kind in ('ManuallyDrop::new',) and fn in ('arc_swap::strategy::hybrid::HybridProtection::new', '<strategy::hybrid::HybridProtection as strategy::sealed::Protected>::from_inner'):
        return True, 'the protection keeps its pointer in a ManuallyDrop (released by Drop / into_inner)'
    if kind == 'ManuallyDrop::drop' and fn == '<strategy::hybrid::HybridProtection as std::ops::Drop>::drop':
        return True, 'Drop releases the owned pointer (LEDGER decides on which paths)'
    if kind in ('discarded into_ptr', 'forget') and not (kind == 'forget' and not _ty_is_owned_ptr(_arg_ty(t, 0))):
        # giving the local handle up after a successful RMW that installed as_ptr(&x): with mem::forget(x). `T::into_ptr(x)` with
        # the result thrown away does the same to the count, but it CONVERTS a handle whose count already went with the exchange:
        # another thread may have taken the value out and released it, and the conversion computes an address inside the freed
        # allocation (Miri: dangling pointer; a real use-after-free for a RefCnt kind whose into_ptr reads the pointee)
        sites = [s for s in cx.summ.sites_by_body.get(b.key, ()) if s.op.startswith('compare_exchange') and b.dominates(s.bb, bb)]
        for s in sites:
            installed = b.origins(s.arg(2), binops=True)
            for hs in cx.summ.sites_by_body.get(b.key, ()):
                if hs.cls == 'handover' and hs.op == 'store' and b.dominates(hs.bb, s.bb):
                    installed = installed | b.origins(hs.arg(1), binops=True)
            asp = {o for o in installed if o[0] == 'call' and U.callee_name(b.term(o[1])) == 'as_ptr'}
            same = any(b.origins(b.term(o[1])['args'][0]) & b.origins(t['args'][0]) or
                       _same_local_root(b, b.term(o[1])['args'][0], t['args'][0]) for o in asp)
            from .protect import _on_cas_success
            if asp and same and _on_cas_success(b, s, bb):
                # FORGET-PROMPTLY: until into_ptr(x) runs, x is an owned value whose pointer is already published;
                # nothing that can unwind (and thereby drop x) may run in between
                between = {x for x in range(b.n) if x != bb and not b.is_cleanup(x) and _on_cas_success(b, s, x)
                           and bb in b.reach_from(x, unwind=False) and not b.dominates(bb, x)}
                mu, _d = may_unwind_bodies(fx)
                risky = []
                for x in sorted(between):
                    tt = b.term(x)
                    if tt['k'] == 'call':
                        ck = tt['callee'].get('resolved') or tt['callee'].get('key')
                        if user_call_kind(tt) or ck in mu or ((tt['callee'].get('trait') or '').startswith('arc_swap::') and not tt['callee'].get('resolved')
                                                                and not (tt['callee'].get('trait') or '').endswith('ref_cnt::RefCnt')
                                                                and any(k2 in mu for k2 in [y.key for y in fx.lib.bodies if y.name == tt['callee'].get('name') and y.j.get('impl_trait') == tt['callee'].get('trait')])):
                            risky.append('%s at %s' % (tt['callee'].get('name'), b.loc(x)))
                    elif tt['k'] == 'drop' and tt.get('has_param'):
                        risky.append('drop at %s' % b.loc(x))
                if risky:
                    return False, 'between the successful exchange (%s) and the forgetting of x the value x is still owned although its pointer is published; ' \
                                  'a panic in %s would drop it (double release)' % (s.loc, ', '.join(risky))
                if kind == 'discarded into_ptr':
                    return False, 'into_ptr(x) after the successful exchange (%s) that installed as_ptr(&x): the count went with the exchange, the value may be gone; ' \
                                  'forget the handle with mem::forget(x) instead of converting it' % s.loc
                return True, 'mem::forget(x) right after the successful exchange that installed as_ptr(&x) (%s)' % s.loc
        if kind == 'forget':
            return False, 'ownership-bypassing primitive outside the admitted idioms'
        return False, 'into_ptr result discarded without a dominating successful exchange of the same value'
    return False, 'ownership-bypassing primitive outside the admitted idioms'


def _same_local_root(b, a, c):
    ra, _ = b.ref_path(a)
    rc, _ = b.ref_path(c)
    la = a['place']['local'] if a['k'] in ('copy', 'move') else None
    lc = c['place']['local'] if c['k'] in ('copy', 'move') else None
    if ra == rc and ra[0] in ('arg', 'call', 'local'):
        return True
    # `&x` vs `move x`
    if ra[0] == 'local' and lc is not None and ra[1] == lc:
        return True
    return False
