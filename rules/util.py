import re
"""Shared analysis helpers on top of mir.Body: atomic sites, summaries, guards."""
from collections import defaultdict

from .mir import op_str, place_str, strip_generics

ORD_RANK = {'Relaxed': 0, 'Acquire': 1, 'Release': 1, 'AcqRel': 2, 'SeqCst': 3}


def ord_ge(a, floor):
    """ordering a is at least as strong as floor in the lattice
    Relaxed < {Acquire, Release} < AcqRel < SeqCst (Acquire/Release incomparable)."""
    if a is None:
        return False
    if a == floor:
        return True
    if floor == 'Relaxed':
        return True
    if a == 'SeqCst':
        return True
    if a == 'AcqRel':
        return floor in ('Acquire', 'Release', 'AcqRel')
    return False


ATOMIC_OPS = {'load', 'store', 'swap', 'compare_exchange', 'compare_exchange_weak', 'fetch_add', 'fetch_sub',
              'fetch_and', 'fetch_or', 'fetch_xor', 'fetch_nand', 'fetch_max', 'fetch_min', 'fetch_update',
              'get_mut', 'into_inner', 'new', 'as_ptr', 'from_ptr', 'from_mut', 'compare_and_swap',
              'fetch_ptr_add', 'fetch_ptr_sub', 'fetch_byte_add', 'fetch_byte_sub', 'try_update', 'update',
              'get_mut_slice', 'from_mut_slice'}
WRITE_OPS = {'store', 'swap', 'compare_exchange', 'compare_exchange_weak', 'compare_and_swap'} | {
    o for o in ATOMIC_OPS if o.startswith('fetch_')} | {'try_update', 'update'}
RMW_OPS = WRITE_OPS - {'store'}


def is_atomic_callee(c):
    p = c.get('path', '')
    return c.get('krate') == 'core' and 'sync::atomic::Atomic' in p


def body_operand_ty(body, op):
    if op['k'] == 'const':
        return op['c'].get('ty') or ''
    p = op['place']
    if p['proj']:
        return p['proj'][-1].get('ty') or ''
    return body.local_ty(p['local'])


class Site:
    __slots__ = ('body', 'bb', 'op', 'cls', 'sub', 'term', 'ords', 'root', 'fields')

    def __init__(self, body, bb, term):
        self.body = body
        self.bb = bb
        self.term = term
        c = term['callee']
        self.op = c.get('name')
        self.root, self.fields = body.ref_path(term['args'][0]) if term['args'] else (('none',), [])
        self.cls, self.sub = classify(body, self)
        self.ords = []
        for a in term['args'][1:]:
            co = body.const_of(a)
            if co and ((co.get('ty') or '').endswith('atomic::Ordering') or (co.get('adt') or '').endswith('atomic::Ordering')):
                self.ords.append(co.get('variant'))
            elif body_operand_ty(body, a).endswith('atomic::Ordering'):
                self.ords.append(None)
        # orderings that could not be resolved to a constant are recorded as None
        n_expected = {'load': 1, 'store': 1, 'swap': 1, 'compare_exchange': 2, 'compare_exchange_weak': 2}.get(self.op)
        if self.op and self.op.startswith('fetch_'):
            n_expected = 1
        if n_expected is not None:
            while len(self.ords) < n_expected:
                self.ords.append(None)

    @property
    def loc(self):
        return self.body.loc(self.bb)

    def key(self):
        return '%s|%s.%s' % (self.body.fname, self.cls + (('/' + self.sub) if self.sub else ''), self.op)

    def arg(self, i):
        return self.term['args'][i] if i < len(self.term['args']) else None

    def __repr__(self):
        return '<Site %s %s %s>' % (self.key(), self.ords, self.loc)


def short(adt):
    return adt.split('::')[-1] if adt else adt


def classify(body, site):
    """location class of an atomic receiver, from the resolved place path"""
    fields = [f for f in site.fields if f['k'] == 'field']
    if site.op == 'new':
        return ('ctor', '')
    if fields:
        last = fields[-1]
        adt, name = last['adt'] or '', last['name']
        if adt == 'arc_swap::ArcSwapAny' and name == 'ptr':
            return ('cell', '')
        if adt == 'arc_swap::debt::Debt' and name == '0':
            sub = 'any'
            for f in fields[:-1]:
                if f['adt'] == 'arc_swap::debt::fast::Slots':
                    sub = 'fast'
                if f['adt'] == 'arc_swap::debt::helping::Slots' and f['name'] == 'slot':
                    sub = 'helping'
            return ('debt', sub)
        if adt == 'arc_swap::debt::helping::Slots':
            return (name, '')
        if adt == 'arc_swap::debt::helping::Handover':
            return ('handover', '')
        if adt == 'arc_swap::debt::list::Node':
            return (name, '')
        return ('unknown', '%s.%s' % (adt, name))
    r = site.root
    if r[0] == 'static':
        if r[1].endswith('::LIST_HEAD'):
            return ('list_head', '')
        return ('unknown', 'static ' + r[1])
    if r[0] == 'arg':
        ty = body.local_ty(r[1])
        if 'atomic::Atomic<*mut <' in ty and 'RefCnt>::Base>' in ty:
            return ('cell', 'param')
    return ('unknown', str(r))


def atomic_sites(crate):
    out = []
    for b in crate.bodies:
        for bb, t in b.calls():
            if is_atomic_callee(t['callee']) and t['callee'].get('name') in ATOMIC_OPS:
                out.append(Site(b, bb, t))
            elif is_atomic_callee(t['callee']):
                s = Site(b, bb, t)
                s.cls = 'unknown'
                s.sub = 'unlisted atomic method %s' % t['callee'].get('name')
                out.append(s)
    return out


# --------------------------------------------------------------------------------------------
# crate-local call graph + transitive summaries on polymorphic bodies

def local_callees(crate, body):
    """(bb, term, callee Body) for calls that resolve to a body of the same crate (incl. closures
    constructed in the body: they are treated as called where constructed)."""
    out = []
    for bb, t in body.calls():
        c = t['callee']
        for k in (c.get('resolved'), c.get('key')):
            if k and k in crate.by_key:
                out.append((bb, t, crate.by_key[k]))
                break
    return out


def closures_built(crate, body):
    out = []
    for bb in range(body.n):
        for i, s in enumerate(body.stmts(bb)):
            if s['k'] == 'assign' and s['rv']['k'] == 'aggregate' and s['rv'].get('agg') == 'closure':
                cb = crate.by_key.get(s['rv']['closure'])
                if cb is not None:
                    out.append((bb, i, cb))
    return out


def fnitem_mentions(crate, body):
    """lib bodies mentioned as fn items (e.g. passed to Option::map)"""
    out = []
    for bb in range(body.n):
        for s in body.stmts(bb):
            if s['k'] == 'assign':
                for o in _operands_of_rv(s['rv']):
                    if o['k'] == 'const' and o['c'].get('fn') in crate.by_key:
                        out.append((bb, crate.by_key[o['c']['fn']]))
        t = body.term(bb)
        if t['k'] == 'call':
            for o in t['args']:
                if o['k'] == 'const' and o['c'].get('fn') in crate.by_key:
                    out.append((bb, crate.by_key[o['c']['fn']]))
    return out


def _operands_of_rv(rv):
    for k in ('op', 'l', 'r', 'arg'):
        if k in rv and isinstance(rv[k], dict):
            yield rv[k]
    for f in rv.get('fields', []):
        yield f


class Summaries:
    """Transitive 'body may perform X' facts over the crate-local call graph (closures built in a
    body and fn items mentioned in it count as called by it)."""

    def __init__(self, crate, sites):
        self.crate = crate
        self.edges = defaultdict(set)
        for b in crate.bodies:
            for _, _, cb in local_callees(crate, b):
                self.edges[b.key].add(cb.key)
            for _, _, cb in closures_built(crate, b):
                self.edges[b.key].add(cb.key)
            for _, cb in fnitem_mentions(crate, b):
                self.edges[b.key].add(cb.key)
        # dispatch through a trait of this crate whose receiver is generic: every impl in the crate is a callee
        impls = defaultdict(list)
        for b in crate.bodies:
            if b.j.get('impl_trait') and b.name:
                impls[(b.j['impl_trait'], b.name)].append(b.key)
        for b in crate.bodies:
            for bb, t in b.calls():
                c = t['callee']
                if (c.get('trait') or '').startswith(crate.name + '::') and not (c.get('resolved') in crate.by_key) \
                        and not (c.get('trait') or '').endswith('ref_cnt::RefCnt'):
                    # (RefCnt's conversions are primitives of the rules: classified by name, not by body)
                    for k in impls.get((c['trait'], c.get('name')), ()):
                        self.edges[b.key].add(k)
        self.sites_by_body = defaultdict(list)
        for s in sites:
            self.sites_by_body[s.body.key].append(s)
        self._memo = {}

    def reach(self, key):
        if key in self._memo:
            return self._memo[key]
        seen = {key}
        st = [key]
        while st:
            k = st.pop()
            for m in self.edges.get(k, ()):
                if m not in seen:
                    seen.add(m)
                    st.append(m)
        self._memo[key] = seen
        return seen

    def sites_reachable(self, key):
        out = []
        for k in self.reach(key):
            out.extend(self.sites_by_body.get(k, ()))
        return out

    def has_site(self, key, pred):
        return any(pred(s) for s in self.sites_reachable(key))


# --------------------------------------------------------------------------------------------
# branch conditions

def def_rvalue(body, op):
    """the single defining rvalue (or call terminator) of a temp operand, following plain copies"""
    for _ in range(10):
        if op is None or op['k'] not in ('copy', 'move') or op['place']['proj']:
            return None
        defs = body.assigns().get(op['place']['local'], [])
        if len(defs) != 1:
            return None
        bb, i, kind, rv, proj = defs[0]
        if proj:
            return None
        if kind == 'call':
            return ('call', bb, rv)
        if kind != 'stmt':
            return None
        if rv['k'] == 'use':
            op = rv['op']
            continue
        return ('rv', bb, i, rv)
    return None


def switch_edge_value(body, sbb, succ):
    """value(s) of the switch discriminant on edge sbb->succ: list of ints, or 'otherwise'"""
    t = body.term(sbb)
    vals = [v for (v, b) in t['targets'] if b == succ]
    if vals and t['otherwise'] != succ:
        return vals
    if t['otherwise'] == succ and not vals:
        return 'otherwise'
    return None  # ambiguous edge


def dominating_branches(body, bb, unwind=True):
    """[(switch_bb, succ_taken, value)] for every switch that dominates bb and one of whose
    successor edges dominates bb (i.e. bb executes only if that branch was taken)."""
    out = []
    for s in range(body.n):
        t = body.term(s)
        if t['k'] != 'switch' or s == bb or not body.dominates(s, bb, unwind):
            continue
        for succ in body.term_succs(s, unwind):
            if body.dominates(succ, bb, unwind) and all(
                    p == s or body.dominates(succ, p, unwind) for p in body.preds(unwind)[succ]):
                v = switch_edge_value(body, s, succ)
                if v is not None:
                    out.append((s, succ, v))
                break
    return out


def bool_outcome(body, sbb, value):
    """For a switch on a bool-like temp: returns (def, truth) where def is def_rvalue of the
    discriminant and truth is True/False for the taken edge; None if not bool-like."""
    t = body.term(sbb)
    d = def_rvalue(body, t['discr'])
    ty = t.get('discr_ty')
    if ty != 'bool':
        return None
    if value == 'otherwise':
        # otherwise of a bool switch on [0 -> x]: true
        vals = [v for (v, b) in t['targets']]
        if vals == [0]:
            return (d, True)
        if vals == [1]:
            return (d, False)
        return None
    if value == [0]:
        return (d, False)
    if value == [1]:
        return (d, True)
    return None


def describe_cond(body, d):
    if d is None:
        return '?'
    if d[0] == 'call':
        return 'call %s' % d[2]['callee']['pretty']
    rv = d[3]
    if rv['k'] == 'binop':
        return '%s(%s, %s)' % (rv['op'], op_str(rv['l']), op_str(rv['r']))
    return rv['k']


def callee_is(term, *suffixes):
    c = term['callee']
    p = strip_generics(c.get('path', ''))
    rp = strip_generics(c.get('resolved_pretty', '') or '')
    return any(p.endswith(s) or rp.endswith(s) for s in suffixes)


def callee_name(term):
    return term['callee'].get('name')


def int_of(body, op):
    c = body.const_of(op)
    if c is None:
        return None
    return c.get('int')


def _place_locals(p):
    yield p['local']
    for e in p['proj']:
        if e['k'] == 'index':
            yield e['local']


def _op_locals(o):
    if o and o.get('k') in ('copy', 'move'):
        yield from _place_locals(o['place'])


def stmt_locals_used(s):
    """locals read by a statement (the destination local is not a use unless projected through)"""
    if s['k'] != 'assign':
        return
    rv = s['rv']
    for k in ('op', 'l', 'r', 'arg'):
        if isinstance(rv.get(k), dict):
            yield from _op_locals(rv[k])
    if 'place' in rv:
        yield from _place_locals(rv['place'])
    for f in rv.get('fields', []):
        yield from _op_locals(f)
    if s['dest']['proj']:
        yield s['dest']['local']


def term_locals_used(t):
    k = t['k']
    if k == 'call':
        for a in t['args']:
            yield from _op_locals(a)
        if 'func_place' in t:
            yield from _place_locals(t['func_place'])
    elif k == 'switch':
        yield from _op_locals(t['discr'])
    elif k == 'drop':
        yield from _place_locals(t['place'])
    elif k == 'assert':
        yield from _op_locals(t['cond'])


def block_uses_local(b, bb, l):
    for s in b.stmts(bb):
        if l in set(stmt_locals_used(s)):
            return True
    return l in set(term_locals_used(b.term(bb)))


# --------------------------------------------------------------------------------------------
# condition facts: what is known to hold on a switch edge, looking through `!`, two-variant
# `otherwise` arms and booleans materialised in match arms (`matches!`, `let ok = match ..`)

TWO_VARIANT_PREFIX = ('std::option::Option<', 'std::result::Result<', 'std::ops::ControlFlow<', '&std::option::Option<',
                      '&std::result::Result<', '&mut std::option::Option<', '&mut std::result::Result<')


def _variant_index(b, t, v, local):
    if isinstance(v, list):
        return v[0] if len(v) == 1 else None
    if v == 'otherwise':
        explicit = sorted(x for x, _ in t['targets'])
        ty = b.local_ty(local)
        if ty.startswith(TWO_VARIANT_PREFIX) and len(explicit) == 1 and explicit[0] in (0, 1):
            return 1 - explicit[0]
    return None


def edge_facts(b, sbb, succ, depth=0):
    """facts known on the CFG edge sbb -> succ of a switch:
       ('bool', def, truth)      def = def_rvalue of a boolean condition (call result or binop)
       ('variant', local, idx)   discriminant(local) == idx"""
    if depth > 6:
        return []
    t = b.term(sbb)
    if t['k'] != 'switch':
        return []
    v = switch_edge_value(b, sbb, succ)
    if v is None:
        return []
    if t.get('discr_ty') == 'bool':
        vals = [x for x, _ in t['targets']]
        if v == 'otherwise':
            if vals == [0]:
                truth = True
            elif vals == [1]:
                truth = False
            else:
                return []
        elif v == [0]:
            truth = False
        elif v == [1]:
            truth = True
        else:
            return []
        return bool_facts(b, t['discr'], truth, depth)
    d = def_rvalue(b, t['discr'])
    if d and d[0] == 'rv' and d[3]['k'] == 'discr':
        pl = d[3]['place']
        only_deref = all(e['k'] == 'deref' for e in pl['proj'])
        idx = _variant_index(b, t, v, pl['local']) if only_deref else None
        if idx is not None:
            return [('variant', pl['local'], idx)]
    return []


def bool_facts(b, op, truth, depth=0):
    if depth > 6 or op is None:
        return []
    d = def_rvalue(b, op)
    if d is None:
        return _phi_facts(b, op, truth, depth)
    if d[0] == 'call':
        return [('bool', d, truth)]
    rv = d[3]
    if rv['k'] == 'unop' and rv['op'] == 'Not':
        return bool_facts(b, rv['arg'], not truth, depth + 1)
    if rv['k'] == 'binop':
        return [('bool', d, truth)]
    return [('bool', d, truth)]


def _phi_facts(b, op, truth, depth):
    if op['k'] not in ('copy', 'move') or op['place']['proj']:
        return []
    def leaf_defs(local, depth=0, seen=None):
        # definitions of a plain local, looking through whole-value copies (`_3 = move _18` in several blocks after jump threading)
        seen = seen if seen is not None else set()
        if depth > 6:
            return None
        if local in seen:
            return []   # already expanded through another copy
        seen.add(local)
        out = []
        for d in b.assigns().get(local, []):
            if d[4]:
                return None
            if d[2] == 'stmt' and d[3]['k'] == 'use' and d[3]['op']['k'] in ('copy', 'move') and not d[3]['op']['place']['proj'] \
                    and not (1 <= d[3]['op']['place']['local'] <= b.arg_count):
                r = leaf_defs(d[3]['op']['place']['local'], depth + 1, seen)
                if r is None:
                    return None
                out.extend(r)
            else:
                out.append(d)
        return out
    defs = leaf_defs(op['place']['local'])
    if not defs:
        return []
    uniq = {}
    for d in defs:
        uniq[(d[0], d[1])] = d
    defs = list(uniq.values())
    consts, others = [], []
    for (bb, i, kind, rv, proj) in defs:
        if kind == 'stmt' and rv['k'] == 'use' and rv['op']['k'] == 'const' and 'int' in rv['op']['c']:
            consts.append((bb, bool(rv['op']['c']['int'])))
        else:
            others.append((bb, i, kind, rv))
    match = [bb for bb, c in consts if c == truth]
    if not others:
        if len(match) != 1:
            return []
        return dominating_facts(b, match[0], depth + 1)
    # `a && b` (`a || b`) stored in a variable: one assignment of a computed value, the others the constant of the short cut.
    # The variable can only have the asked-for truth value through the computed assignment when no constant equals it.
    if len(others) == 1 and not match and len(defs) > 1:
        bb, i, kind, rv = others[0]
        if kind == 'stmt' and rv['k'] == 'use' and rv['op']['k'] in ('copy', 'move') and not rv['op']['place']['proj']:
            return dominating_facts(b, bb, depth + 1) + bool_facts(b, rv['op'], truth, depth + 1)
        if kind == 'call':
            return dominating_facts(b, bb, depth + 1) + [('bool', ('call', bb, rv), truth)]
        if kind == 'stmt' and rv['k'] in ('binop', 'unop'):
            if rv['k'] == 'unop' and rv['op'] == 'Not':
                return dominating_facts(b, bb, depth + 1) + bool_facts(b, rv['arg'], not truth, depth + 1)
            return dominating_facts(b, bb, depth + 1) + [('bool', ('rv', bb, i, rv), truth)]
    return []


def dominating_facts(b, bb, depth=0, unwind=False):
    out = []
    for (sbb, succ, val) in dominating_branches(b, bb, unwind=unwind):
        out.extend(edge_facts(b, sbb, succ, depth))
    return out


def local_from_call(b, local, call_bb):
    return ('call', call_bb) in b.origins(local)


def const_path_reach(b, start, stops, unwind=False, limit=4000):
    """Blocks reached from `start` on paths that avoid the blocks in `stops`, pruning switch edges that contradict integer / boolean
    constants assigned to plain locals earlier ON THE SAME PATH (a flag set in one arm and tested after the join: `let ok = ..; if ok`).
    -> set of blocks reached (including start)."""
    seen = set()
    reached = set()
    work = [(start, ())]
    n = 0
    while work and n < limit:
        n += 1
        bb, envt = work.pop()
        if (bb, envt) in seen or bb in stops:
            continue
        seen.add((bb, envt))
        reached.add(bb)
        env = dict(envt)
        for st in b.stmts(bb):
            if st['k'] != 'assign':
                continue
            d = st['dest']
            if d['proj']:
                continue
            rv = st['rv']
            v = None
            if rv['k'] == 'use':
                o = rv['op']
                if o['k'] == 'const' and 'int' in o['c']:
                    v = o['c']['int']
                elif o['k'] in ('copy', 'move') and not o['place']['proj']:
                    v = env.get(o['place']['local'])
            if v is None:
                env.pop(d['local'], None)
            else:
                env[d['local']] = v
        t = b.term(bb)
        if t['k'] == 'call' and not t['dest']['proj']:
            env.pop(t['dest']['local'], None)
        succs = b.term_succs(bb, unwind)
        if t['k'] == 'switch' and t['discr']['k'] in ('copy', 'move') and not t['discr']['place']['proj'] and t['discr']['place']['local'] in env:
            v = env[t['discr']['place']['local']]
            tg = [x for (val, x) in t['targets'] if val == v]
            succs = tg[:1] if tg else [t['otherwise']]
        e2 = tuple(sorted(env.items()))
        for y in succs:
            work.append((y, e2))
    return reached


# names of generic type parameters that stand for a counted pointer (bounded by RefCnt): collected from the receivers of RefCnt
# trait calls in the crate at hand, so that `fn help<Ptr: RefCnt, ..>` is read like `fn help<T: RefCnt, ..>`
REFCNT_PARAMS = {'T', 'Self'}


def note_refcnt_params(crate):
    for b in crate.bodies:
        for bb, t in b.calls():
            c = t['callee']
            if (c.get('trait') or '').endswith('ref_cnt::RefCnt') and c.get('self_is_param') and re.fullmatch(r'[A-Za-z_][A-Za-z0-9_]*', c.get('self_ty') or ''):
                REFCNT_PARAMS.add(c['self_ty'])


def is_refcnt_param(ty):
    return (ty or '').strip() in REFCNT_PARAMS


def mentions_refcnt_param(ty):
    return any(re.search(r'(^|[<(, &])%s($|[>), ])' % re.escape(p_), ty or '') for p_ in REFCNT_PARAMS)
