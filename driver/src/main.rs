//! asv-driver: rustc_private fact extractor for the arc-swap static verification harness.
//!
//! Used as RUSTC_WRAPPER (argv[1] is the real rustc and is dropped). For crates named in
//! ASV_LOCAL_CRATES (default "arc_swap,roots") it dumps the polymorphic MIR (after drop
//! elaboration, mir-opt-level=0) plus crate-level facts as JSON into $ASV_FACTS_DIR/<crate>.local.json.
//! For the crate named in ASV_MONO_CRATE (default "roots") it additionally walks the
//! monomorphic call graph from every `pub fn root_*` and writes <crate>.mono.json.
//! Nothing is executed; every other crate is compiled untouched.

#![feature(rustc_private)]
#![allow(clippy::all)]

extern crate rustc_abi;
extern crate rustc_driver;
extern crate rustc_hir;
extern crate rustc_interface;
extern crate rustc_middle;
extern crate rustc_span;

mod json;
mod local;
mod mono;

use rustc_driver::Compilation;
use rustc_middle::ty::TyCtxt;

struct Cb;

impl rustc_driver::Callbacks for Cb {
    fn after_analysis<'tcx>(
        &mut self,
        _c: &rustc_interface::interface::Compiler,
        tcx: TyCtxt<'tcx>,
    ) -> Compilation {
        let name = tcx.crate_name(rustc_hir::def_id::LOCAL_CRATE).to_string();
        let locals = std::env::var("ASV_LOCAL_CRATES").unwrap_or_else(|_| "arc_swap,roots".into());
        let mono = std::env::var("ASV_MONO_CRATE").unwrap_or_else(|_| "roots".into());
        let dir = match std::env::var("ASV_FACTS_DIR") {
            Ok(d) => d,
            Err(_) => return Compilation::Continue,
        };
        if locals.split(',').any(|c| c == name) {
            let j = local::dump(tcx);
            let mut s = String::new();
            j.write(&mut s);
            std::fs::write(format!("{dir}/{name}.local.json"), s).expect("write local facts");
        }
        if mono == name {
            let j = mono::dump(tcx);
            let mut s = String::new();
            j.write(&mut s);
            std::fs::write(format!("{dir}/{name}.mono.json"), s).expect("write mono facts");
        }
        Compilation::Continue
    }
}

fn main() {
    let mut args: Vec<String> = std::env::args().collect();
    // RUSTC_WRAPPER protocol: argv[1] is the path of the real rustc.
    if args.len() > 1 && (args[1].ends_with("rustc") || args[1].contains("/rustc")) {
        args.remove(1);
    }
    rustc_driver::run_compiler(&args, &mut Cb);
}
