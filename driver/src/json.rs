//! Minimal JSON value + writer (the driver has zero cargo dependencies).

#[derive(Clone, Debug)]
pub enum J {
    Null,
    Bool(bool),
    Int(i128),
    Str(String),
    Arr(Vec<J>),
    Obj(Vec<(String, J)>),
}

impl J {
    pub fn obj() -> J {
        J::Obj(Vec::new())
    }
    pub fn set(mut self, k: &str, v: J) -> J {
        if let J::Obj(ref mut o) = self {
            o.push((k.to_string(), v));
        }
        self
    }
    pub fn put(&mut self, k: &str, v: J) {
        if let J::Obj(ref mut o) = self {
            o.push((k.to_string(), v));
        }
    }
    pub fn s<S: Into<String>>(s: S) -> J {
        J::Str(s.into())
    }
    pub fn i<I: Into<i128>>(i: I) -> J {
        J::Int(i.into())
    }
    pub fn u(i: usize) -> J {
        J::Int(i as i128)
    }
    pub fn opt_s(o: Option<String>) -> J {
        match o {
            Some(s) => J::Str(s),
            None => J::Null,
        }
    }
    pub fn write(&self, out: &mut String) {
        match self {
            J::Null => out.push_str("null"),
            J::Bool(b) => out.push_str(if *b { "true" } else { "false" }),
            J::Int(i) => out.push_str(&i.to_string()),
            J::Str(s) => write_str(s, out),
            J::Arr(a) => {
                out.push('[');
                for (i, v) in a.iter().enumerate() {
                    if i > 0 {
                        out.push(',');
                    }
                    v.write(out);
                }
                out.push(']');
            }
            J::Obj(o) => {
                out.push('{');
                for (i, (k, v)) in o.iter().enumerate() {
                    if i > 0 {
                        out.push(',');
                    }
                    write_str(k, out);
                    out.push(':');
                    v.write(out);
                }
                out.push('}');
            }
        }
    }
}

fn write_str(s: &str, out: &mut String) {
    out.push('"');
    for c in s.chars() {
        match c {
            '"' => out.push_str("\\\""),
            '\\' => out.push_str("\\\\"),
            '\n' => out.push_str("\\n"),
            '\r' => out.push_str("\\r"),
            '\t' => out.push_str("\\t"),
            c if (c as u32) < 0x20 => out.push_str(&format!("\\u{:04x}", c as u32)),
            c => out.push(c),
        }
    }
    out.push('"');
}
