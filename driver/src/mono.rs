//! Mono mode: instantiated call graph from every `pub fn root_*` of the crate being compiled.
//!
//! Bodies of the crates in ASV_WALK_CRATES (default "arc_swap,roots") are walked, shims of any
//! crate (drop glue, closure-once shims, clone shims, ...) are walked too; everything else in
//! core/alloc/std/serde is a leaf recorded with its full path.
//!
//! Over-approximations (sound for reachability rules):
//!  * constructing a closure or mentioning a fn item counts as a potential call of it;
//!  * a by-value (moved) argument handed to a leaf counts as a potential drop of its type there.

use crate::json::J;
use crate::local::{assert_kind, instance_kind, key, span_json, ty_str};
use rustc_hir::def::DefKind;
use rustc_middle::mir::{AggregateKind, BasicBlock, Body, Operand, Rvalue, StatementKind, TerminatorKind};
use rustc_middle::ty::print::with_no_trimmed_paths;
use rustc_middle::ty::{self, EarlyBinder, Instance, Ty, TyCtxt, TypingEnv};
use std::collections::{HashMap, VecDeque};

fn back_edges<'tcx>(body: &Body<'tcx>) -> Vec<(usize, usize)> {
    let n = body.basic_blocks.len();
    let mut color = vec![0u8; n];
    let mut out = vec![];
    let succ = |b: usize| -> Vec<usize> {
        body.basic_blocks[BasicBlock::from_usize(b)]
            .terminator()
            .successors()
            .map(|s| s.as_usize())
            .collect()
    };
    let mut stack: Vec<(usize, Vec<usize>, usize)> = vec![];
    color[0] = 1;
    stack.push((0, succ(0), 0));
    while let Some((b, ss, i)) = stack.pop() {
        if i < ss.len() {
            let s = ss[i];
            stack.push((b, ss.clone(), i + 1));
            if color[s] == 0 {
                color[s] = 1;
                stack.push((s, succ(s), 0));
            } else if color[s] == 1 {
                out.push((b, s));
            }
        } else {
            color[b] = 2;
        }
    }
    out
}

struct Walk<'tcx> {
    tcx: TyCtxt<'tcx>,
    env: TypingEnv<'tcx>,
    ids: HashMap<Instance<'tcx>, usize>,
    order: Vec<Instance<'tcx>>,
    queue: VecDeque<Instance<'tcx>>,
    walk_crates: Vec<String>,
}

impl<'tcx> Walk<'tcx> {
    fn id(&mut self, i: Instance<'tcx>) -> usize {
        if let Some(&n) = self.ids.get(&i) {
            return n;
        }
        let n = self.order.len();
        self.ids.insert(i, n);
        self.order.push(i);
        self.queue.push_back(i);
        n
    }

    fn is_walked(&self, inst: &Instance<'tcx>) -> bool {
        let tcx = self.tcx;
        match inst.def {
            ty::InstanceKind::Item(d) => {
                let k = tcx.crate_name(d.krate).to_string();
                if !self.walk_crates.iter().any(|c| *c == k) {
                    return false;
                }
                // foreign items / trait methods without body
                if !tcx.is_mir_available(d) {
                    return false;
                }
                matches!(
                    tcx.def_kind(d),
                    DefKind::Fn | DefKind::AssocFn | DefKind::Closure | DefKind::Ctor(..)
                )
            }
            ty::InstanceKind::Intrinsic(_) | ty::InstanceKind::Virtual(..) => false,
            // shims: always walk (their bodies are generated and small)
            _ => true,
        }
    }

    fn needs_drop(&self, t: Ty<'tcx>) -> bool {
        t.needs_drop(self.tcx, self.env)
    }
}

pub fn dump(tcx: TyCtxt<'_>) -> J {
    let env = TypingEnv::fully_monomorphized();
    let walk_crates: Vec<String> = std::env::var("ASV_WALK_CRATES")
        .unwrap_or_else(|_| "arc_swap,roots".into())
        .split(',')
        .map(|s| s.to_string())
        .collect();
    let mut w = Walk { tcx, env, ids: HashMap::new(), order: vec![], queue: VecDeque::new(), walk_crates };
    let mut roots = Vec::new();
    let mut keys: Vec<_> = tcx.mir_keys(()).iter().copied().collect();
    keys.sort_by_key(|k| tcx.def_path_str(k.to_def_id()));
    for ldid in keys {
        let did = ldid.to_def_id();
        if !matches!(tcx.def_kind(did), DefKind::Fn) {
            continue;
        }
        let name = tcx.item_name(did).to_string();
        if !name.starts_with("root_") {
            continue;
        }
        if tcx.generics_of(did).count() != 0 {
            continue;
        }
        let inst = Instance::mono(tcx, did);
        let id = w.id(inst);
        roots.push(J::obj().set("name", J::s(name)).set("path", J::s(with_no_trimmed_paths!(tcx.def_path_str(did)))).set("instance", J::u(id)));
    }

    let mut out: Vec<J> = Vec::new();
    let mut results: HashMap<usize, J> = HashMap::new();
    while let Some(inst) = w.queue.pop_front() {
        let my = w.ids[&inst];
        let d = inst.def_id();
        let mut o = J::obj()
            .set("id", J::u(my))
            .set("key", J::s(key(tcx, d)))
            .set("pretty", J::s(with_no_trimmed_paths!(format!("{}", inst))))
            .set("path", J::s(with_no_trimmed_paths!(tcx.def_path_str(d))))
            .set("krate", J::s(tcx.crate_name(d.krate).to_string()))
            .set("kind", J::s(instance_kind(&inst)))
            .set(
                "args",
                J::Arr(inst.args.iter().map(|a| J::s(with_no_trimmed_paths!(format!("{}", a)))).collect()),
            );
        if let Some(tr) = tcx.trait_of_assoc(d) {
            o.put("trait", J::s(key(tcx, tr)));
        }
        if let Some(imp) = tcx.impl_of_assoc(d) {
            if let Some(tr) = tcx.impl_opt_trait_ref(imp) {
                o.put("impl_trait", J::s(key(tcx, tr.skip_binder().def_id)));
            }
        }
        if let ty::InstanceKind::DropGlue(_, Some(t)) = inst.def {
            o.put("drop_ty", J::s(ty_str(t)));
        }
        let walked = w.is_walked(&inst);
        o.put("walked", J::Bool(walked));
        if !walked {
            results.insert(my, o);
            continue;
        }
        let body = tcx.instance_mir(inst.def);
        let is_item = matches!(inst.def, ty::InstanceKind::Item(_));
        o.put("shim", J::Bool(!is_item));
        o.put("nblocks", J::u(body.basic_blocks.len()));
        let mut calls = Vec::new();
        let mut asserts = Vec::new();
        for (bb, data) in body.basic_blocks.iter_enumerated() {
            let cleanup = data.is_cleanup;
            macro_rules! push_edge {
                ($w:expr, $ci:expr, $kind:expr, $sp:expr) => {{
                    let to = $w.id($ci);
                    calls.push(
                        J::obj()
                            .set("to", J::u(to))
                            .set("bb", J::u(bb.as_usize()))
                            .set("kind", J::s($kind))
                            .set("cleanup", J::Bool(cleanup))
                            .set("line", span_json(tcx, $sp)),
                    );
                }};
            }
            for st in &data.statements {
                if let StatementKind::Assign(bx) = &st.kind {
                    match &bx.1 {
                        Rvalue::Aggregate(ak, _) => {
                            if let AggregateKind::Closure(cd, cargs) = &**ak {
                                let cargs = inst.instantiate_mir_and_normalize_erasing_regions(
                                    tcx,
                                    env,
                                    EarlyBinder::bind(*cargs),
                                );
                                let ci = Instance::resolve_closure(tcx, *cd, cargs, ty::ClosureKind::FnOnce);
                                push_edge!(w, ci, "closure-construct", st.source_info.span);
                            }
                        }
                        Rvalue::Cast(_, Operand::Constant(c), _) | Rvalue::Use(Operand::Constant(c), ..) => {
                            let t = inst.instantiate_mir_and_normalize_erasing_regions(
                                tcx,
                                env,
                                EarlyBinder::bind(c.const_.ty()),
                            );
                            if let ty::FnDef(cd, cargs) = t.kind() {
                                if let Ok(Some(ci)) = Instance::try_resolve(tcx, env, *cd, cargs) {
                                    push_edge!(w, ci, "fnitem-mention", st.source_info.span);
                                }
                            }
                        }
                        _ => {}
                    }
                }
            }
            let term = data.terminator();
            match &term.kind {
                TerminatorKind::Call { func, args, .. } | TerminatorKind::TailCall { func, args, .. } => {
                    let fty = inst.instantiate_mir_and_normalize_erasing_regions(
                        tcx,
                        env,
                        EarlyBinder::bind(func.ty(body, tcx)),
                    );
                    let mut callee_walked = true;
                    match fty.kind() {
                        ty::FnDef(cd, cargs) => match Instance::try_resolve(tcx, env, *cd, cargs) {
                            Ok(Some(ci)) => {
                                callee_walked = w.is_walked(&ci);
                                push_edge!(w, ci, "call", term.source_info.span);
                            }
                            _ => {
                                calls.push(
                                    J::obj()
                                        .set("to", J::Null)
                                        .set("unresolved", J::s(with_no_trimmed_paths!(tcx.def_path_str_with_args(*cd, cargs))))
                                        .set("bb", J::u(bb.as_usize()))
                                        .set("kind", J::s("unresolved"))
                                        .set("cleanup", J::Bool(cleanup))
                                        .set("line", span_json(tcx, term.source_info.span)),
                                );
                            }
                        },
                        _ => {
                            calls.push(
                                J::obj()
                                    .set("to", J::Null)
                                    .set("unresolved", J::s(ty_str(fty)))
                                    .set("bb", J::u(bb.as_usize()))
                                    .set("kind", J::s("indirect"))
                                    .set("cleanup", J::Bool(cleanup))
                                    .set("line", span_json(tcx, term.source_info.span)),
                            );
                        }
                    }
                    for a in args.iter() {
                        match &a.node {
                            Operand::Constant(c) => {
                                let t = inst.instantiate_mir_and_normalize_erasing_regions(
                                    tcx,
                                    env,
                                    EarlyBinder::bind(c.const_.ty()),
                                );
                                if let ty::FnDef(cd, cargs) = t.kind() {
                                    if let Ok(Some(ci)) = Instance::try_resolve(tcx, env, *cd, cargs) {
                                        push_edge!(w, ci, "fnitem-arg", term.source_info.span);
                                    }
                                }
                            }
                            Operand::Move(p) if !callee_walked => {
                                let t = inst.instantiate_mir_and_normalize_erasing_regions(
                                    tcx,
                                    env,
                                    EarlyBinder::bind(p.ty(body, tcx).ty),
                                );
                                if w.needs_drop(t) {
                                    let di = Instance::resolve_drop_in_place(tcx, t);
                                    if !matches!(di.def, ty::InstanceKind::DropGlue(_, None)) {
                                        push_edge!(w, di, "arg-drop", term.source_info.span);
                                    }
                                }
                            }
                            _ => {}
                        }
                    }
                }
                TerminatorKind::Drop { place, .. } => {
                    let pty = inst.instantiate_mir_and_normalize_erasing_regions(
                        tcx,
                        env,
                        EarlyBinder::bind(place.ty(body, tcx).ty),
                    );
                    let di = Instance::resolve_drop_in_place(tcx, pty);
                    if !matches!(di.def, ty::InstanceKind::DropGlue(_, None)) {
                        push_edge!(w, di, "drop", term.source_info.span);
                    }
                }
                TerminatorKind::Assert { msg, .. } => {
                    asserts.push(
                        J::obj()
                            .set("bb", J::u(bb.as_usize()))
                            .set("msg", J::s(assert_kind(msg)))
                            .set("cleanup", J::Bool(cleanup))
                            .set("line", span_json(tcx, term.source_info.span)),
                    );
                }
                _ => {}
            }
        }
        let mut loops = Vec::new();
        for (a, b) in back_edges(body) {
            loops.push(
                J::obj()
                    .set("from", J::u(a))
                    .set("to", J::u(b))
                    .set("cleanup", J::Bool(body.basic_blocks[BasicBlock::from_usize(a)].is_cleanup)),
            );
        }
        if !is_item {
            // CFG of shim bodies (no local facts exist for them)
            let mut succs = Vec::new();
            for data in body.basic_blocks.iter() {
                succs.push(J::Arr(data.terminator().successors().map(|s| J::u(s.as_usize())).collect()));
            }
            o.put("succs", J::Arr(succs));
        }
        o.put("calls", J::Arr(calls));
        o.put("asserts", J::Arr(asserts));
        o.put("back_edges", J::Arr(loops));
        results.insert(my, o);
    }
    for i in 0..w.order.len() {
        out.push(results.remove(&i).unwrap_or(J::Null));
    }
    J::obj()
        .set("crate", J::s(tcx.crate_name(rustc_hir::def_id::LOCAL_CRATE).to_string()))
        .set("roots", J::Arr(roots))
        .set("instances", J::Arr(out))
}
