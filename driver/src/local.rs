//! Local mode: polymorphic MIR + crate-level facts of the crate being compiled.

use crate::json::J;
use rustc_hir::def::DefKind;
use rustc_hir::def_id::{DefId, LOCAL_CRATE};
use rustc_middle::mir::{
    AggregateKind, BasicBlock, Body, BorrowKind, CastKind, Const, ConstValue, Operand, Place,
    PlaceRef, ProjectionElem, Rvalue, StatementKind, TerminatorKind, UnwindAction,
    VarDebugInfoContents,
};
use rustc_middle::ty::print::with_no_trimmed_paths;
use rustc_middle::ty::{self, Instance, Ty, TyCtxt, TypeVisitableExt, TypingEnv};
use rustc_span::Span;

pub fn key(tcx: TyCtxt<'_>, d: DefId) -> String {
    format!(
        "{}{}",
        tcx.crate_name(d.krate),
        tcx.def_path(d).to_string_no_crate_verbose()
    )
}

pub fn pretty(tcx: TyCtxt<'_>, d: DefId) -> String {
    let p = with_no_trimmed_paths!(tcx.def_path_str(d));
    if d.is_local() {
        format!("{}::{}", tcx.crate_name(LOCAL_CRATE), p)
    } else {
        p
    }
}

pub fn ty_str<'tcx>(t: Ty<'tcx>) -> String {
    with_no_trimmed_paths!(format!("{}", t))
}

/// ADT key of a type after peeling references / raw pointers.
pub fn adt_of<'tcx>(tcx: TyCtxt<'tcx>, mut t: Ty<'tcx>) -> Option<String> {
    loop {
        match t.kind() {
            ty::Ref(_, inner, _) => t = *inner,
            ty::RawPtr(inner, _) => t = *inner,
            ty::Adt(def, _) => return Some(key(tcx, def.did())),
            _ => return None,
        }
    }
}

pub fn span_json(tcx: TyCtxt<'_>, sp: Span) -> J {
    let sm = tcx.sess.source_map();
    let outer = sp.source_callsite();
    let lo = sm.lookup_char_pos(outer.lo());
    let file = match &lo.file.name {
        rustc_span::FileName::Real(r) => r
            .local_path()
            .map(|p| p.display().to_string())
            .unwrap_or_else(|| format!("{:?}", lo.file.name)),
        other => format!("{:?}", other),
    };
    let mut macros = Vec::new();
    for e in sp.macro_backtrace() {
        if let rustc_span::ExpnKind::Macro(_, name) = e.kind {
            macros.push(J::s(name.to_string()));
        } else {
            macros.push(J::s(format!("{:?}", e.kind)));
        }
    }
    J::obj()
        .set("file", J::s(file))
        .set("line", J::u(lo.line))
        .set("col", J::u(lo.col.0 + 1))
        .set("macros", J::Arr(macros))
}

pub struct BodyCx<'a, 'tcx> {
    pub tcx: TyCtxt<'tcx>,
    pub body: &'a Body<'tcx>,
    pub env: TypingEnv<'tcx>,
}

impl<'a, 'tcx> BodyCx<'a, 'tcx> {
    fn place(&self, p: &Place<'tcx>) -> J {
        self.place_ref(p.as_ref())
    }

    fn place_ref(&self, p: PlaceRef<'tcx>) -> J {
        let tcx = self.tcx;
        let mut proj = Vec::new();
        for (base, elem) in p.iter_projections() {
            let bty = base.ty(self.body, tcx);
            let e = match elem {
                ProjectionElem::Deref => J::obj().set("k", J::s("deref")),
                ProjectionElem::Field(f, fty) => {
                    let mut o = J::obj().set("k", J::s("field")).set("idx", J::u(f.as_usize()));
                    match bty.ty.kind() {
                        ty::Adt(def, _) => {
                            let vidx = bty.variant_index.unwrap_or(rustc_abi::FIRST_VARIANT);
                            let v = def.variant(vidx);
                            let name = v.fields[f].name.to_string();
                            o.put("name", J::s(name));
                            o.put("adt", J::s(key(tcx, def.did())));
                            if def.is_enum() {
                                o.put("variant", J::s(v.name.to_string()));
                            }
                        }
                        ty::Closure(..) => {
                            o.put("name", J::s(format!("upvar#{}", f.as_usize())));
                            o.put("adt", J::s("<closure>"));
                        }
                        _ => {
                            o.put("name", J::s(format!("{}", f.as_usize())));
                        }
                    }
                    o.put("ty", J::s(ty_str(fty)));
                    o
                }
                ProjectionElem::Index(l) => {
                    J::obj().set("k", J::s("index")).set("local", J::u(l.as_usize()))
                }
                ProjectionElem::ConstantIndex { offset, from_end, .. } => J::obj()
                    .set("k", J::s("constindex"))
                    .set("offset", J::i(offset as i128))
                    .set("from_end", J::Bool(from_end)),
                ProjectionElem::Subslice { from, to, from_end } => J::obj()
                    .set("k", J::s("subslice"))
                    .set("from", J::i(from as i128))
                    .set("to", J::i(to as i128))
                    .set("from_end", J::Bool(from_end)),
                ProjectionElem::Downcast(name, v) => J::obj()
                    .set("k", J::s("downcast"))
                    .set("variant", J::opt_s(name.map(|n| n.to_string())))
                    .set("vidx", J::u(v.as_usize())),
                other => J::obj().set("k", J::s("other")).set("text", J::s(format!("{:?}", other))),
            };
            proj.push(e);
        }
        J::obj().set("local", J::u(p.local.as_usize())).set("proj", J::Arr(proj))
    }

    fn constant(&self, c: &Const<'tcx>) -> J {
        let tcx = self.tcx;
        let t = c.ty();
        let mut o = J::obj().set("ty", J::s(ty_str(t)));
        o.put("text", J::s(with_no_trimmed_paths!(format!("{}", c))));
        match t.kind() {
            ty::FnDef(d, args) => {
                o.put("fn", J::s(key(tcx, *d)));
                o.put("fn_pretty", J::s(with_no_trimmed_paths!(tcx.def_path_str_with_args(*d, args))));
            }
            _ => {}
        }
        if let Const::Unevaluated(u, _) = c {
            o.put("def", J::s(key(tcx, u.def)));
        }
        // evaluate scalars (integers, bools, fieldless enums with scalar layout)
        if !c.has_non_region_param() {
            if let Ok(v) = c.eval(tcx, self.env, rustc_span::DUMMY_SP) {
                if let ConstValue::Scalar(rustc_middle::mir::interpret::Scalar::Int(si)) = v {
                    let bits = si.to_bits_unchecked();
                    o.put("int", J::Int(bits as i128));
                    if let ty::Adt(def, _) = t.kind() {
                        if def.is_enum() {
                            for (vi, discr) in def.discriminants(tcx) {
                                if discr.val == bits {
                                    o.put("variant", J::s(def.variant(vi).name.to_string()));
                                }
                            }
                        }
                    }
                } else if let ConstValue::Scalar(rustc_middle::mir::interpret::Scalar::Ptr(ptr, _)) = v {
                    let aid = ptr.provenance.alloc_id();
                    if let Some(rustc_middle::mir::interpret::GlobalAlloc::Static(sd)) = tcx.try_get_global_alloc(aid) {
                        o.put("static", J::s(key(tcx, sd)));
                    }
                } else if matches!(v, ConstValue::ZeroSized) {
                    o.put("zst", J::Bool(true));
                }
            }
        }
        o
    }

    fn operand(&self, op: &Operand<'tcx>) -> J {
        match op {
            Operand::Copy(p) => J::obj().set("k", J::s("copy")).set("place", self.place(p)),
            Operand::Move(p) => J::obj().set("k", J::s("move")).set("place", self.place(p)),
            Operand::Constant(c) => J::obj().set("k", J::s("const")).set("c", self.constant(&c.const_)),
            #[allow(unreachable_patterns)]
            other => J::obj().set("k", J::s("other")).set("text", J::s(format!("{:?}", other))),
        }
    }

    fn rvalue(&self, rv: &Rvalue<'tcx>) -> J {
        let tcx = self.tcx;
        match rv {
            Rvalue::Use(op, ..) => J::obj().set("k", J::s("use")).set("op", self.operand(op)),
            Rvalue::Ref(_, bk, p) => J::obj()
                .set("k", J::s("ref"))
                .set("mut", J::Bool(matches!(bk, BorrowKind::Mut { .. })))
                .set("place", self.place(p)),
            Rvalue::RawPtr(k, p) => J::obj()
                .set("k", J::s("rawptr"))
                .set("kind", J::s(format!("{:?}", k)))
                .set("place", self.place(p)),
            Rvalue::Cast(ck, op, t) => {
                let ckind = match ck {
                    CastKind::Transmute => "transmute".to_string(),
                    other => format!("{:?}", other),
                };
                J::obj()
                    .set("k", J::s("cast"))
                    .set("cast", J::s(ckind))
                    .set("op", self.operand(op))
                    .set("ty", J::s(ty_str(*t)))
            }
            Rvalue::BinaryOp(bop, ops) => J::obj()
                .set("k", J::s("binop"))
                .set("op", J::s(format!("{:?}", bop)))
                .set("l", self.operand(&ops.0))
                .set("r", self.operand(&ops.1)),
            Rvalue::UnaryOp(uop, op) => J::obj()
                .set("k", J::s("unop"))
                .set("op", J::s(format!("{:?}", uop)))
                .set("arg", self.operand(op)),
            Rvalue::Discriminant(p) => J::obj().set("k", J::s("discr")).set("place", self.place(p)),
            Rvalue::Aggregate(ak, fields) => {
                let mut o = J::obj().set("k", J::s("aggregate"));
                match &**ak {
                    AggregateKind::Adt(d, vidx, args, _, _) => {
                        let def = tcx.adt_def(*d);
                        o.put("agg", J::s("adt"));
                        o.put("adt", J::s(key(tcx, *d)));
                        o.put("variant", J::s(def.variant(*vidx).name.to_string()));
                        o.put("args", J::Arr(args.iter().map(|a| J::s(with_no_trimmed_paths!(format!("{}", a)))).collect()));
                        o.put(
                            "field_names",
                            J::Arr(def.variant(*vidx).fields.iter().map(|f| J::s(f.name.to_string())).collect()),
                        );
                    }
                    AggregateKind::Tuple => o.put("agg", J::s("tuple")),
                    AggregateKind::Array(_) => o.put("agg", J::s("array")),
                    AggregateKind::Closure(d, args) => {
                        o.put("agg", J::s("closure"));
                        o.put("closure", J::s(key(tcx, *d)));
                        o.put("args", J::Arr(args.iter().map(|a| J::s(with_no_trimmed_paths!(format!("{}", a)))).collect()));
                    }
                    other => {
                        o.put("agg", J::s("other"));
                        o.put("text", J::s(format!("{:?}", other)));
                    }
                }
                o.put("fields", J::Arr(fields.iter().map(|f| self.operand(f)).collect()));
                o
            }
            Rvalue::Repeat(op, n) => J::obj()
                .set("k", J::s("repeat"))
                .set("op", self.operand(op))
                .set("n", J::s(format!("{}", n))),
            Rvalue::ThreadLocalRef(d) => J::obj().set("k", J::s("tls_ref")).set("def", J::s(key(tcx, *d))),
            Rvalue::CopyForDeref(p) => J::obj()
                .set("k", J::s("use"))
                .set("op", J::obj().set("k", J::s("copy")).set("place", self.place(p))),
            other => J::obj().set("k", J::s("other")).set("text", J::s(format!("{:?}", other))),
        }
    }

    fn unwind(&self, u: &UnwindAction) -> J {
        match u {
            UnwindAction::Continue => J::s("continue"),
            UnwindAction::Unreachable => J::s("unreachable"),
            UnwindAction::Terminate(_) => J::s("terminate"),
            UnwindAction::Cleanup(bb) => J::u(bb.as_usize()),
        }
    }

    pub fn callee(&self, fty: Ty<'tcx>) -> J {
        let tcx = self.tcx;
        match fty.kind() {
            ty::FnDef(d, args) => {
                let mut o = J::obj()
                    .set("key", J::s(key(tcx, *d)))
                    .set("pretty", J::s(with_no_trimmed_paths!(tcx.def_path_str_with_args(*d, args))))
                    .set("path", J::s(with_no_trimmed_paths!(tcx.def_path_str(*d))))
                    .set("krate", J::s(tcx.crate_name(d.krate).to_string()))
                    .set("name", J::opt_s(tcx.opt_item_name(*d).map(|n| n.to_string())))
                    .set(
                        "args",
                        J::Arr(args.iter().map(|a| J::s(with_no_trimmed_paths!(format!("{}", a)))).collect()),
                    );
                if let Some(tr) = tcx.trait_of_assoc(*d) {
                    o.put("trait", J::s(key(tcx, tr)));
                    o.put("trait_pretty", J::s(with_no_trimmed_paths!(tcx.def_path_str(tr))));
                    if let Some(st) = args.types().next() {
                        o.put("self_ty", J::s(ty_str(st)));
                        o.put("self_is_param", J::Bool(matches!(st.kind(), ty::Param(_))));
                        o.put("self_has_param", J::Bool(st.has_non_region_param()));
                        if let Some(a) = adt_of(tcx, st) {
                            o.put("self_adt", J::s(a));
                        }
                        if let ty::Closure(cd, _) = st.kind() {
                            o.put("self_closure", J::s(key(tcx, *cd)));
                        }
                    }
                } else if let Some(imp) = tcx.impl_of_assoc(*d) {
                    let st = tcx.type_of(imp).instantiate(tcx, args).skip_norm_wip();
                    o.put("impl_self_ty", J::s(ty_str(st)));
                    if let Some(a) = adt_of(tcx, st) {
                        o.put("self_adt", J::s(a));
                    }
                }
                // try to resolve trait methods to their impl (polymorphically)
                if let Ok(Some(inst)) = Instance::try_resolve(tcx, self.env, *d, args) {
                    let rd = inst.def_id();
                    o.put("resolved", J::s(key(tcx, rd)));
                    o.put("resolved_pretty", J::s(with_no_trimmed_paths!(tcx.def_path_str(rd))));
                    o.put("resolved_kind", J::s(instance_kind(&inst)));
                    o.put("resolved_krate", J::s(tcx.crate_name(rd.krate).to_string()));
                }
                o
            }
            ty::FnPtr(..) => J::obj().set("key", J::s("<fnptr>")).set("pretty", J::s(ty_str(fty))),
            _ => J::obj().set("key", J::s("<indirect>")).set("pretty", J::s(ty_str(fty))),
        }
    }

    pub fn body_json(&self, def: DefId) -> J {
        let tcx = self.tcx;
        let body = self.body;
        let mut locals = Vec::new();
        let mut names: Vec<Option<String>> = vec![None; body.local_decls.len()];
        for vdi in &body.var_debug_info {
            if let VarDebugInfoContents::Place(p) = &vdi.value {
                if p.projection.is_empty() {
                    names[p.local.as_usize()] = Some(vdi.name.to_string());
                } else if names[p.local.as_usize()].is_none() {
                    // captured upvars: `(*_1).0` debug name
                    // keep in a separate list below
                }
            }
        }
        for (l, decl) in body.local_decls.iter_enumerated() {
            let mut o = J::obj().set("ty", J::s(ty_str(decl.ty)));
            if let Some(n) = &names[l.as_usize()] {
                o.put("name", J::s(n.clone()));
            }
            if let Some(a) = adt_of(tcx, decl.ty) {
                o.put("adt", J::s(a));
            }
            o.put("has_param", J::Bool(decl.ty.has_non_region_param()));
            locals.push(o);
        }
        let mut upvar_names = Vec::new();
        for vdi in &body.var_debug_info {
            if let VarDebugInfoContents::Place(p) = &vdi.value {
                if !p.projection.is_empty() {
                    upvar_names.push(J::obj().set("name", J::s(vdi.name.to_string())).set("place", self.place(p)));
                }
            }
        }
        let mut blocks = Vec::new();
        for (_bb, data) in body.basic_blocks.iter_enumerated() {
            let mut stmts = Vec::new();
            for st in &data.statements {
                match &st.kind {
                    StatementKind::Assign(bx) => {
                        let (p, rv) = &**bx;
                        stmts.push(
                            J::obj()
                                .set("k", J::s("assign"))
                                .set("dest", self.place(p))
                                .set("rv", self.rvalue(rv))
                                .set("span", span_json(tcx, st.source_info.span)),
                        );
                    }
                    StatementKind::SetDiscriminant { place, variant_index } => {
                        stmts.push(
                            J::obj()
                                .set("k", J::s("setdiscr"))
                                .set("dest", self.place(place))
                                .set("vidx", J::u(variant_index.as_usize())),
                        );
                    }
                    StatementKind::Intrinsic(i) => {
                        stmts.push(J::obj().set("k", J::s("intrinsic")).set("text", J::s(format!("{:?}", i))));
                    }
                    _ => {}
                }
            }
            let term = data.terminator();
            let tj = match &term.kind {
                TerminatorKind::Goto { target } => J::obj().set("k", J::s("goto")).set("target", J::u(target.as_usize())),
                TerminatorKind::SwitchInt { discr, targets } => {
                    let mut ts = Vec::new();
                    for (v, bb) in targets.iter() {
                        ts.push(J::Arr(vec![J::Int(v as i128), J::u(bb.as_usize())]));
                    }
                    J::obj()
                        .set("k", J::s("switch"))
                        .set("discr", self.operand(discr))
                        .set("discr_ty", J::s(ty_str(discr.ty(body, tcx))))
                        .set("targets", J::Arr(ts))
                        .set("otherwise", J::u(targets.otherwise().as_usize()))
                }
                TerminatorKind::Call { func, args, destination, target, unwind, .. } => {
                    let fty = func.ty(body, tcx);
                    let mut o = J::obj()
                        .set("k", J::s("call"))
                        .set("callee", self.callee(fty))
                        .set("args", J::Arr(args.iter().map(|a| self.operand(&a.node)).collect()))
                        .set(
                            "arg_tys",
                            J::Arr(args.iter().map(|a| J::s(ty_str(a.node.ty(body, tcx)))).collect()),
                        )
                        .set("dest", self.place(destination))
                        .set("target", target.map(|t| J::u(t.as_usize())).unwrap_or(J::Null))
                        .set("unwind", self.unwind(unwind));
                    if let Operand::Copy(p) | Operand::Move(p) = func {
                        o.put("func_place", self.place(p));
                    }
                    o
                }
                TerminatorKind::TailCall { func, args, .. } => J::obj()
                    .set("k", J::s("tailcall"))
                    .set("callee", self.callee(func.ty(body, tcx)))
                    .set("args", J::Arr(args.iter().map(|a| self.operand(&a.node)).collect())),
                TerminatorKind::Drop { place, target, unwind, .. } => {
                    let pty = place.ty(body, tcx).ty;
                    let mut o = J::obj()
                        .set("k", J::s("drop"))
                        .set("place", self.place(place))
                        .set("ty", J::s(ty_str(pty)))
                        .set("has_param", J::Bool(pty.has_non_region_param()))
                        .set("target", J::u(target.as_usize()))
                        .set("unwind", self.unwind(unwind));
                    if let Some(a) = adt_of(tcx, pty) {
                        o.put("adt", J::s(a));
                    }
                    o
                }
                TerminatorKind::Assert { cond, expected, msg, target, unwind } => J::obj()
                    .set("k", J::s("assert"))
                    .set("cond", self.operand(cond))
                    .set("expected", J::Bool(*expected))
                    .set("msg", J::s(assert_kind(msg)))
                    .set("target", J::u(target.as_usize()))
                    .set("unwind", self.unwind(unwind)),
                TerminatorKind::Return => J::obj().set("k", J::s("return")),
                TerminatorKind::UnwindResume => J::obj().set("k", J::s("resume")),
                TerminatorKind::UnwindTerminate(_) => J::obj().set("k", J::s("terminate")),
                TerminatorKind::Unreachable => J::obj().set("k", J::s("unreachable")),
                other => J::obj().set("k", J::s("other")).set("text", J::s(format!("{:?}", other))),
            };
            let tj = tj.set("span", span_json(tcx, term.source_info.span));
            blocks.push(
                J::obj()
                    .set("cleanup", J::Bool(data.is_cleanup))
                    .set("stmts", J::Arr(stmts))
                    .set("term", tj),
            );
        }
        let kind = format!("{:?}", tcx.def_kind(def));
        let mut o = J::obj()
            .set("key", J::s(key(tcx, def)))
            .set("pretty", J::s(pretty(tcx, def)))
            .set("kind", J::s(kind))
            .set("span", span_json(tcx, body.span))
            .set("arg_count", J::u(body.arg_count))
            .set("locals", J::Arr(locals))
            .set("upvars", J::Arr(upvar_names))
            .set("blocks", J::Arr(blocks));
        if matches!(tcx.def_kind(def), DefKind::Fn | DefKind::AssocFn) {
            let sig = tcx.fn_sig(def).skip_binder().skip_binder();
            o.put("unsafe_fn", J::Bool(!sig.safety().is_safe()));
            o.put("vis_pub", J::Bool(tcx.visibility(def).is_public()));
            o.put("sig", J::s(with_no_trimmed_paths!(format!("{}", sig))));
        }
        if let Some(name) = tcx.opt_item_name(def) {
            o.put("name", J::s(name.to_string()));
        }
        let parent = tcx.parent(def);
        o.put("parent", J::s(key(tcx, parent)));
        if let Some(imp) = tcx.impl_of_assoc(def) {
            o.put("impl", J::s(key(tcx, imp)));
            o.put("impl_self_ty", J::s(ty_str(tcx.type_of(imp).instantiate_identity().skip_norm_wip())));
            if let Some(a) = adt_of(tcx, tcx.type_of(imp).instantiate_identity().skip_norm_wip()) {
                o.put("impl_self_adt", J::s(a));
            }
            if let Some(tr) = tcx.impl_opt_trait_ref(imp) {
                let tr = tr.instantiate_identity().skip_norm_wip();
                o.put("impl_trait", J::s(key(tcx, tr.def_id)));
                o.put("impl_trait_ref", J::s(with_no_trimmed_paths!(format!("{}", tr))));
            }
        } else if let Some(tr) = tcx.trait_of_assoc(def) {
            o.put("trait_default_of", J::s(key(tcx, tr)));
        }
        let generics = tcx.generics_of(def);
        let mut gs = Vec::new();
        let mut g = Some(generics);
        while let Some(gg) = g {
            for p in &gg.own_params {
                gs.push(J::s(p.name.to_string()));
            }
            g = gg.parent.map(|p| tcx.generics_of(p));
        }
        o.put("generics", J::Arr(gs));
        o
    }
}

pub fn instance_kind(inst: &Instance<'_>) -> String {
    match inst.def {
        ty::InstanceKind::Item(_) => "item".into(),
        ty::InstanceKind::Intrinsic(_) => "intrinsic".into(),
        ty::InstanceKind::VTableShim(_) => "vtable_shim".into(),
        ty::InstanceKind::ReifyShim(..) => "reify_shim".into(),
        ty::InstanceKind::FnPtrShim(..) => "fnptr_shim".into(),
        ty::InstanceKind::Virtual(..) => "virtual".into(),
        ty::InstanceKind::ClosureOnceShim { .. } => "closure_once_shim".into(),
        ty::InstanceKind::DropGlue(_, Some(_)) => "drop_glue".into(),
        ty::InstanceKind::DropGlue(_, None) => "drop_glue_noop".into(),
        ty::InstanceKind::CloneShim(..) => "clone_shim".into(),
        ty::InstanceKind::ThreadLocalShim(..) => "tls_shim".into(),
        _ => "other_shim".into(),
    }
}

pub fn assert_kind<'tcx>(msg: &rustc_middle::mir::AssertKind<Operand<'tcx>>) -> String {
    use rustc_middle::mir::AssertKind::*;
    match msg {
        BoundsCheck { .. } => "bounds".into(),
        Overflow(op, ..) => format!("overflow:{:?}", op),
        OverflowNeg(_) => "overflow:Neg".into(),
        DivisionByZero(_) => "div_by_zero".into(),
        RemainderByZero(_) => "rem_by_zero".into(),
        MisalignedPointerDereference { .. } => "misaligned_ptr".into(),
        NullPointerDereference => "null_ptr".into(),
        other => format!("other:{:?}", std::mem::discriminant(other)),
    }
}

struct UnsafeCounter<'tcx> {
    tcx: TyCtxt<'tcx>,
    blocks: Vec<J>,
}

impl<'tcx> rustc_hir::intravisit::Visitor<'tcx> for UnsafeCounter<'tcx> {
    type NestedFilter = rustc_middle::hir::nested_filter::All;
    fn maybe_tcx(&mut self) -> TyCtxt<'tcx> {
        self.tcx
    }
    fn visit_block(&mut self, b: &'tcx rustc_hir::Block<'tcx>) {
        if let rustc_hir::BlockCheckMode::UnsafeBlock(src) = b.rules {
            if matches!(src, rustc_hir::UnsafeSource::UserProvided) && !b.span.from_expansion() {
                let owner = self.tcx.hir_enclosing_body_owner(b.hir_id);
                self.blocks.push(
                    span_json(self.tcx, b.span).set("owner", J::s(key(self.tcx, owner.to_def_id()))),
                );
            }
        }
        rustc_hir::intravisit::walk_block(self, b);
    }
}

pub fn dump(tcx: TyCtxt<'_>) -> J {
    let mut bodies = Vec::new();
    let mut consts = Vec::new();
    for ldid in tcx.mir_keys(()) {
        let def = ldid.to_def_id();
        let dk = tcx.def_kind(def);
        match dk {
            DefKind::Fn | DefKind::AssocFn | DefKind::Closure | DefKind::Ctor(..) => {
                if matches!(dk, DefKind::Ctor(..)) {
                    continue;
                }
                let body = tcx.optimized_mir(def);
                let env = TypingEnv::post_analysis(tcx, def);
                let cx = BodyCx { tcx, body, env };
                bodies.push(cx.body_json(def));
            }
            DefKind::Const { .. } | DefKind::AssocConst { .. } => {
                let mut o = J::obj()
                    .set("key", J::s(key(tcx, def)))
                    .set("pretty", J::s(pretty(tcx, def)))
                    .set("ty", J::s(ty_str(tcx.type_of(def).instantiate_identity().skip_norm_wip())));
                if let Some(n) = tcx.opt_item_name(def) {
                    o.put("name", J::s(n.to_string()));
                }
                if let Ok(v) = tcx.const_eval_poly(def) {
                    if let ConstValue::Scalar(rustc_middle::mir::interpret::Scalar::Int(si)) = v {
                        o.put("int", J::Int(si.to_bits_unchecked() as i128));
                    }
                }
                if let Some(imp) = tcx.impl_of_assoc(def) {
                    o.put("impl_self_ty", J::s(ty_str(tcx.type_of(imp).instantiate_identity().skip_norm_wip())));
                }
                consts.push(o);
            }
            _ => {}
        }
    }

    let mut adts = Vec::new();
    let mut impls = Vec::new();
    let mut statics = Vec::new();
    let mut traits = Vec::new();
    for ldid in tcx.hir_crate_items(()).definitions() {
        let def = ldid.to_def_id();
        match tcx.def_kind(def) {
            DefKind::Struct | DefKind::Enum | DefKind::Union => {
                let adt = tcx.adt_def(def);
                let mut variants = Vec::new();
                for v in adt.variants() {
                    let mut fields = Vec::new();
                    for f in &v.fields {
                        let fty = tcx.type_of(f.did).instantiate_identity().skip_norm_wip();
                        let fty = tcx
                            .try_normalize_erasing_regions(TypingEnv::post_analysis(tcx, def), rustc_middle::ty::Unnormalized::new_wip(fty))
                            .unwrap_or(fty);
                        let mut fo = J::obj()
                            .set("name", J::s(f.name.to_string()))
                            .set("ty", J::s(ty_str(fty)))
                            .set("pub", J::Bool(f.vis.is_public()));
                        if let Some(a) = adt_of(tcx, fty) {
                            fo.put("adt", J::s(a));
                        }
                        if let ty::Adt(d, _) = fty.kind() {
                            fo.put("direct_adt", J::s(key(tcx, d.did())));
                        }
                        if let ty::Array(et, n) = fty.kind() {
                            fo.put("array_of", J::s(ty_str(*et)));
                            if let Some(a) = adt_of(tcx, *et) {
                                fo.put("array_adt", J::s(a));
                            }
                            if let Some(n) = n.try_to_target_usize(tcx) {
                                fo.put("array_len", J::Int(n as i128));
                            }
                        }
                        fields.push(fo);
                    }
                    variants.push(J::obj().set("name", J::s(v.name.to_string())).set("fields", J::Arr(fields)));
                }
                let repr = adt.repr();
                let mut o = J::obj()
                    .set("key", J::s(key(tcx, def)))
                    .set("pretty", J::s(pretty(tcx, def)))
                    .set("kind", J::s(format!("{:?}", tcx.def_kind(def))))
                    .set("variants", J::Arr(variants))
                    .set("repr_align", repr.align.map(|a| J::Int(a.bytes() as i128)).unwrap_or(J::Null))
                    .set("repr_c", J::Bool(repr.c()))
                    .set("has_drop", J::Bool(adt.destructor(tcx).is_some()))
                    .set("vis_pub", J::Bool(tcx.visibility(def).is_public()))
                    .set("span", span_json(tcx, tcx.def_span(def)));
                let generics = tcx.generics_of(def);
                o.put(
                    "generics",
                    J::Arr(generics.own_params.iter().map(|p| J::s(p.name.to_string())).collect()),
                );
                if generics.own_params.iter().all(|p| matches!(p.kind, ty::GenericParamDefKind::Lifetime)) {
                    let t = tcx.type_of(def).instantiate_identity().skip_norm_wip();
                    let t = tcx.erase_and_anonymize_regions(t);
                    if let Ok(l) = tcx.layout_of(TypingEnv::fully_monomorphized().as_query_input(t)) {
                        o.put("size", J::Int(l.size.bytes() as i128));
                        o.put("align", J::Int(l.align.abi.bytes() as i128));
                    }
                }
                adts.push(o);
            }
            DefKind::Impl { .. } => {
                let self_ty = tcx.type_of(def).instantiate_identity().skip_norm_wip();
                let mut o = J::obj()
                    .set("key", J::s(key(tcx, def)))
                    .set("self_ty", J::s(ty_str(self_ty)))
                    .set("span", span_json(tcx, tcx.def_span(def)));
                if let Some(a) = adt_of(tcx, self_ty) {
                    o.put("self_adt", J::s(a));
                }
                if let Some(tr) = tcx.impl_opt_trait_ref(def) {
                    let tr = tr.instantiate_identity().skip_norm_wip();
                    o.put("trait", J::s(key(tcx, tr.def_id)));
                    o.put("trait_pretty", J::s(with_no_trimmed_paths!(tcx.def_path_str(tr.def_id))));
                    o.put("trait_ref", J::s(with_no_trimmed_paths!(format!("{}", tr))));
                    let header = tcx.impl_trait_header(def);
                    o.put("unsafe", J::Bool(!header.safety.is_safe()));
                    o.put("polarity", J::s(format!("{:?}", header.polarity)));
                }
                let preds = tcx.predicates_of(def);
                o.put(
                    "predicates",
                    J::Arr(
                        preds
                            .predicates
                            .iter()
                            .map(|(p, _)| J::s(with_no_trimmed_paths!(format!("{}", p))))
                            .collect(),
                    ),
                );
                let mut items = Vec::new();
                for it in tcx.associated_items(def).in_definition_order() {
                    items.push(
                        J::obj()
                            .set("name", J::s(it.name().to_string()))
                            .set("key", J::s(key(tcx, it.def_id)))
                            .set("kind", J::s(format!("{:?}", it.tag()))),
                    );
                }
                o.put("items", J::Arr(items));
                impls.push(o);
            }
            DefKind::Static { .. } => {
                let t = tcx.type_of(def).instantiate_identity().skip_norm_wip();
                statics.push(
                    J::obj()
                        .set("key", J::s(key(tcx, def)))
                        .set("pretty", J::s(pretty(tcx, def)))
                        .set("ty", J::s(ty_str(t)))
                        .set("thread_local", J::Bool(tcx.is_thread_local_static(def)))
                        .set("mutable", J::Bool(tcx.is_mutable_static(def)))
                        .set("span", span_json(tcx, tcx.def_span(def))),
                );
            }
            DefKind::Trait => {
                let mut items = Vec::new();
                for it in tcx.associated_items(def).in_definition_order() {
                    items.push(
                        J::obj()
                            .set("name", J::s(it.name().to_string()))
                            .set("key", J::s(key(tcx, it.def_id)))
                            .set("kind", J::s(format!("{:?}", it.tag())))
                            .set("has_default", J::Bool(it.defaultness(tcx).has_value())),
                    );
                }
                traits.push(
                    J::obj()
                        .set("key", J::s(key(tcx, def)))
                        .set("pretty", J::s(pretty(tcx, def)))
                        .set("unsafe", J::Bool(!tcx.trait_def(def).safety.is_safe()))
                        .set("items", J::Arr(items)),
                );
            }
            _ => {}
        }
    }

    let mut uc = UnsafeCounter { tcx, blocks: Vec::new() };
    tcx.hir_walk_toplevel_module(&mut uc);

    let mut features = Vec::new();
    for (name, val) in tcx.sess.config.iter() {
        if name.as_str() == "feature" {
            if let Some(v) = val {
                features.push(J::s(v.to_string()));
            }
        }
    }
    let opts = &tcx.sess.opts;
    J::obj()
        .set("crate", J::s(tcx.crate_name(LOCAL_CRATE).to_string()))
        .set("features", J::Arr(features))
        .set("debug_assertions", J::Bool(opts.debug_assertions))
        .set("overflow_checks", J::Bool(tcx.sess.overflow_checks()))
        .set("bodies", J::Arr(bodies))
        .set("consts", J::Arr(consts))
        .set("adts", J::Arr(adts))
        .set("impls", J::Arr(impls))
        .set("statics", J::Arr(statics))
        .set("traits", J::Arr(traits))
        .set("unsafe_blocks", J::Arr(uc.blocks))
}

#[allow(dead_code)]
pub fn bb(b: BasicBlock) -> usize {
    b.as_usize()
}
