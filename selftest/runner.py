"""Self-test runner: ./check --selftest [--jobs N] [name-substring ...]

Applies each case of selftest/cases.py to a scratch copy of $VERIF_REPO (default /repo), outside
/repo and /verif, runs the named checks against the copy and compares with the expectation.
Mutants must fire (the report names the property), benign edits must stay silent everywhere.
"""
import json
import os
import re
import shutil
import subprocess
import sys
import tempfile
import time
from concurrent.futures import ThreadPoolExecutor

HERE = os.path.dirname(os.path.abspath(__file__))
VERIF = os.path.dirname(HERE)
sys.path.insert(0, HERE)
import cases as C  # noqa: E402

REPO = os.environ.get('VERIF_REPO', '/repo')


def run_case(case):
    t0 = time.time()
    d = tempfile.mkdtemp(prefix='asv-st-')
    try:
        repo = os.path.join(d, 'repo')
        shutil.copytree(REPO, repo, ignore=shutil.ignore_patterns('target', '.git'))
        for (f, old, new) in case['edits']:
            p = os.path.join(repo, f)
            s = open(p).read()
            if old not in s:
                return dict(name=case['name'], ok=False, why='edit does not apply to %s (source changed?)' % f, fired={}, wall=0)
            open(p, 'w').write(s.replace(old, new, 1))
        env = dict(os.environ, VERIF_REPO=repo, VERIF_NO_EVIDENCE='1', VERIF_OUT=os.path.join(d, 'out'), VERIF_KEEP_CACHE='1', VERIF_CACHE=os.path.join(d, 'cache'))
        fired = {}
        errors = []
        for pid in case['props']:
            p = subprocess.run([os.path.join(VERIF, 'check'), pid], env=env, stdout=subprocess.PIPE, stderr=subprocess.STDOUT, text=True)
            viol = [l for l in p.stdout.splitlines() if re.match(r'^  [A-Z][A-Z-]+ \[', l)]
            if 'fact extraction failed' in p.stdout:
                errors.append(p.stdout[-800:])
            if p.returncode != 0:
                fired[pid] = [l.strip()[:220] for l in viol[:4]] or ['(exit %d)' % p.returncode]
        if errors:
            return dict(name=case['name'], ok=False, why='does not compile: ' + errors[0][-400:], fired=fired, wall=time.time() - t0)
        if case['kind'] == 'benign':
            ok = not fired
            why = 'silent' if ok else 'FALSE ALARM: %s' % json.dumps(fired)[:600]
        else:
            missing = [p for p in case['expect'] if p not in fired]
            ok = not missing
            why = 'fired: %s' % sorted(fired) if ok else 'MISSED by %s (fired: %s)' % (missing, sorted(fired))
        return dict(name=case['name'], kind=case['kind'], ok=ok, why=why, fired=fired, wall=time.time() - t0)
    finally:
        shutil.rmtree(d, ignore_errors=True)
        # drop the scratch tree's fact cache
        pass


def main(argv):
    jobs = 6
    if '--jobs' in argv:
        i = argv.index('--jobs')
        jobs = int(argv[i + 1])
        del argv[i:i + 2]
    sel = [c for c in C.CASES if not argv or any(a in c['name'] for a in argv)]
    t0 = time.time()
    with ThreadPoolExecutor(max_workers=jobs) as ex:
        res = list(ex.map(run_case, sel))
    bad = 0
    for r in res:
        print('%-5s %-42s %5.1fs  %s' % ('ok' if r['ok'] else 'FAIL', r['name'], r.get('wall', 0), r['why'][:300]))
        if not r['ok']:
            bad += 1
    print('selftest: %d cases, %d failed, %.0fs' % (len(res), bad, time.time() - t0))
    json.dump(res, open(os.path.join(VERIF, 'selftest', 'last_result.json'), 'w'), indent=1)
    return 1 if bad else 0
