#!/bin/bash
# usage: try_patch.sh <patch.diff> <Cxx> [Cyy ...]   — run checks against a scratch copy of /repo with the patch applied
set -e
P=$(readlink -f "$1"); shift
D=$(mktemp -d /tmp/asv-try-XXXXXX)
trap 'rm -rf "$D"' EXIT
rsync -a --exclude target --exclude .git /repo/ "$D/repo/"
(cd "$D/repo" && git init -q . && git apply --whitespace=nowarn "$P") || { echo "PATCH DOES NOT APPLY"; exit 3; }
rc=0
for c in "$@"; do
  VERIF_REPO="$D/repo" VERIF_CACHE="$D/cache" VERIF_NO_EVIDENCE=1 /verif/check "$c" 2>&1 | grep -E "^(VIOLATION|HOLDS|KNOWN|C[0-9]+ |  [A-Z-]+ \[)" | sed "s#$D/repo/##g" | cut -c1-260 || true
done
