"""Self-test cases: hand-written mutants (must fire) and benign edits (must stay silent).

Each case: name, kind, edits [(file, old, new)], props (checks to run), expect (properties that
must report a violation; empty for benign). Edits are applied to a scratch copy of /repo.
Every mutant here compiles; those marked tested=True were also run once against the repository's
own suite (cargo test --offline) and passed it.
"""

H = 'src/strategy/hybrid.rs'
M = 'src/debt/mod.rs'
HP = 'src/debt/helping.rs'
LI = 'src/debt/list.rs'
FA = 'src/debt/fast.rs'
LB = 'src/lib.rs'
CA = 'src/cache.rs'
AC = 'src/access.rs'
RW = 'src/strategy/rw_lock.rs'
RC = 'src/ref_cnt.rs'
WK = 'src/weak.rs'
SE = 'src/serde.rs'

ALL = ['C%02d' % i for i in range(1, 21)]

CASES = [
    # ------------------------------------------------------------------ mutants: orderings
    dict(name='m-confirm-load-acquire', kind='mutant', props=['C07', 'C01', 'C03'], expect=['C07', 'C01'],
         edits=[(H, 'let confirm = storage.load(SeqCst);', 'let confirm = storage.load(Acquire);')]),
    dict(name='m-pay-relaxed', kind='mutant', props=['C07'], expect=['C07'],
         edits=[(M, '.compare_exchange(ptr as usize, Self::NONE, SeqCst, SeqCst)', '.compare_exchange(ptr as usize, Self::NONE, Relaxed, Relaxed)')]),
    dict(name='m-swap-acqrel', kind='mutant', props=['C07', 'C01'], expect=['C07', 'C01'],
         edits=[(LB, 'let old = self.ptr.swap(new, Ordering::SeqCst);', 'let old = self.ptr.swap(new, Ordering::AcqRel);')]),
    dict(name='m-handover-cas-relaxed-fail', kind='mutant', props=['C07'], expect=['C07'],
         edits=[(HP, '.compare_exchange(control, space_addr, SeqCst, SeqCst)', '.compare_exchange(control, space_addr, SeqCst, Relaxed)')]),
    dict(name='m-cooldown-relaxed', kind='mutant', props=['C11', 'C07'], expect=['C11', 'C07'],
         edits=[(LI, 'assert_eq!(NODE_USED, self.in_use.swap(NODE_COOLDOWN, Release));', 'assert_eq!(NODE_USED, self.in_use.swap(NODE_COOLDOWN, Relaxed));')]),
    dict(name='m-envelope-published-before-filled', kind='mutant', props=['C07', 'C12'], expect=['C07'],
         edits=[(HP, '''                    unsafe {
                        (*my_space).0.store(replace_addr, SeqCst);
                    }
                    // Ensured by the align annotation at the type.''', '''                    // Ensured by the align annotation at the type.'''),
                (HP, '''                        Ok(_) => {
                            // We have successfully sent our replacement out (Release) and got''', '''                        Ok(_) => {
                            unsafe {
                                (*my_space).0.store(replace_addr, SeqCst);
                            }
                            // We have successfully sent our replacement out (Release) and got''')]),
    # ------------------------------------------------------------------ mutants: protection
    dict(name='m-no-confirm-reread', kind='mutant', props=['C01', 'C03'], expect=['C01', 'C03'],
         edits=[(H, 'let confirm = storage.load(SeqCst);\n        if ptr == confirm {', 'let confirm = ptr;\n        if ptr == confirm {')]),
    dict(name='m-dec-before-wait', kind='mutant', props=['C01', 'C04'], expect=['C01'],
         edits=[(H, '''                <Self as InnerStrategy<T>>::wait_for_readers(self, old.as_ptr(), storage);
                // We just got one ref count out of the storage and we have one in old. We don't
                // need two.
                T::dec(old.as_ptr());''', '''                T::dec(old.as_ptr());
                <Self as InnerStrategy<T>>::wait_for_readers(self, old.as_ptr(), storage);''')]),
    dict(name='m-drop-without-wait', kind='mutant', props=['C01', 'C04'], expect=['C01'],
         edits=[(LB, '''            // To pay any possible debts
            self.strategy.wait_for_readers(ptr, &self.ptr);
            // We are getting rid''', '''            // We are getting rid''')]),
    dict(name='m-take-7-slots', kind='mutant', props=['C01', 'C02'], expect=['C01'],
         edits=[(M, '''                    .fast_slots()
                    .chain(core::iter::once(node.helping_slot()));''', '''                    .fast_slots()
                    .take(7)
                    .chain(core::iter::once(node.helping_slot()));''')]),
    dict(name='m-forget-helping-slot', kind='mutant', props=['C01'], expect=['C01'],
         edits=[(M, '''                let all_slots = node
                    .fast_slots()
                    .chain(core::iter::once(node.helping_slot()));''', '''                let all_slots = node.fast_slots();''')]),
    dict(name='m-stop-after-first-node', kind='mutant', props=['C01'], expect=['C01'],
         edits=[(M, '''                }

                None
            });''', '''                }

                Some(())
            });''')]),
    dict(name='m-fallback-read-before-intent', kind='mutant', props=['C01', 'C03'], expect=['C01', 'C03'],
         edits=[(H, '''        let gen = node.new_helping(storage as *const _ as usize);''', '''        let candidate = storage.load(SeqCst);
        let gen = node.new_helping(storage as *const _ as usize);'''),
                (H, '''        // Debt).
        let candidate = storage.load(SeqCst);
''', '''        // Debt).
''')]),
    dict(name='m-claim-without-empty-test', kind='mutant', props=['C01', 'C10'], expect=['C01'],
         edits=[(FA, 'if slot.0.load(Relaxed) == Debt::NONE {', 'if slot.0.load(Relaxed) != usize::MAX {')]),
    # ------------------------------------------------------------------ mutants: ledger
    dict(name='m-unconditional-inc-in-pay-loop', kind='mutant', props=['C02'], expect=['C02'],
         edits=[(M, '''                    if slot.pay::<T>(ptr) {
                        // Pre-pay one more, for another future slot
                        T::inc(&val);
                    }''', '''                    let _paid = slot.pay::<T>(ptr);
                    T::inc(&val);''')]),
    dict(name='m-no-prepay', kind='mutant', props=['C02'], expect=['C02'],
         edits=[(M, '''            // Pre-pay one ref count that can be safely put into a debt slot to pay it.
            T::inc(&val);
''', '')]),
    dict(name='m-cas-success-no-dec', kind='mutant', props=['C02', 'C05', 'C04'], expect=['C02'],
         edits=[(H, '''                T::dec(old.as_ptr());
                // See above.''', '''                // See above.''')]),
    dict(name='m-rwlock-cas-fail-no-inc', kind='mutant', props=['C14', 'C02', 'C05'], expect=['C14', 'C02'],
         edits=[(RW, '''            T::inc(&old);
        }''', '''        }''')]),
    dict(name='m-into_inner-no-forget', kind='mutant', props=['C04', 'C02'], expect=['C04', 'C02'],
         edits=[(LB, '''        unsafe { self.strategy.wait_for_readers(ptr, &self.ptr) };
        mem::forget(self);
        unsafe { T::from_ptr(ptr) }''', '''        unsafe { self.strategy.wait_for_readers(ptr, &self.ptr) };
        unsafe { T::inc(&T::from_ptr(ptr)); T::from_ptr(ptr) }''')], skip_compile_check=True),
    dict(name='m-fallback-keeps-helping-slot', kind='mutant', props=['C02', 'C10'], expect=['C02', 'C10'],
         edits=[(H, '''                Self::from_inner(unsafe { Self::new(candidate, Some(debt)).into_inner() })''', '''                unsafe { Self::new(candidate, Some(debt)) }''')]),
    # ------------------------------------------------------------------ mutants: progress
    dict(name='m-load-retry-loop', kind='mutant', props=['C08'], expect=['C08'],
         edits=[(H, '''            fast.unwrap_or_else(|| HybridProtection::fallback(node, storage))''', '''            let mut fast = fast;
            while fast.is_none() && Cfg::USE_FAST {
                fast = HybridProtection::attempt(node, storage);
            }
            fast.unwrap_or_else(|| HybridProtection::fallback(node, storage))''')]),
    dict(name='m-wait-for-writers-spin', kind='mutant', props=['C09', 'C08'], expect=['C09'],
         edits=[(LI, '''            let verdict = if self.active_writers.load(Relaxed) == 0 {''', '''            while self.active_writers.load(Relaxed) != 0 {}
            let verdict = if self.active_writers.load(Relaxed) == 0 {''')]),
    dict(name='m-mutex-around-list', kind='mutant', props=['C09', 'C08'], expect=['C09'],
         edits=[(LI, '''        let mut current = unsafe { LIST_HEAD.load(SeqCst).as_ref() };''', '''        static LOCK: std::sync::Mutex<()> = std::sync::Mutex::new(());
        let _g = LOCK.lock();
        let mut current = unsafe { LIST_HEAD.load(SeqCst).as_ref() };''')]),
    # ------------------------------------------------------------------ mutants: totality
    dict(name='m-new-unwrap-on-hot-path', kind='mutant', props=['C13'], expect=['C13'],
         edits=[(H, '''        let gen = node.new_helping(storage as *const _ as usize);''', '''        let gen = node.new_helping(storage as *const _ as usize);
        assert!(gen != 0, "generation is never zero");''')]),
    dict(name='m-call-inside-transaction', kind='mutant', props=['C13', 'C18'], expect=['C13'],
         edits=[(H, '''        let candidate = storage.load(SeqCst);

        // Try to replace''', '''        let candidate = storage.load(SeqCst);
        let _dbg = alloc::format!("{:p}", candidate);

        // Try to replace''')]),
    dict(name='m-colliding-tags', kind='mutant', props=['C13'], expect=['C13'],
         edits=[(HP, 'pub const GEN_TAG: usize = 0b10;', 'pub const GEN_TAG: usize = 0b01;')]),
    dict(name='m-generation-step-2', kind='mutant', props=['C13'], expect=['C13'],
         edits=[(HP, 'let gen = local.generation.get().wrapping_add(4);\n        debug_assert_eq!(gen & GEN_TAG, 0);', 'let gen = local.generation.get().wrapping_add(2);')]),
    dict(name='b-handover-align-2', kind='benign', props=['C13', 'C07'], expect=[],
         edits=[(HP, '#[repr(align(4))]\nstruct Handover', '#[repr(align(2))]\nstruct Handover')]),  # natural alignment of AtomicUsize (8) still leaves the tag bits free on this target
    # ------------------------------------------------------------------ mutants: node list
    dict(name='m-release-straight-to-unused', kind='mutant', props=['C11'], expect=['C11'],
         edits=[(LI, 'assert_eq!(NODE_USED, self.in_use.swap(NODE_COOLDOWN, Release));', 'assert_eq!(NODE_USED, self.in_use.swap(NODE_UNUSED, Release));')]),
    dict(name='m-cooldown-ignores-writers', kind='mutant', props=['C11'], expect=['C11'],
         edits=[(LI, 'let verdict = if self.active_writers.load(Relaxed) == 0 {', 'let verdict = if self.active_writers.load(Relaxed) != usize::MAX {')]),
    dict(name='m-always-allocate', kind='mutant', props=['C11'], expect=['C11'],
         edits=[(LI, '''        // Try to find an unused one in the chain and reuse it.
        Self::traverse(|node| {''', '''        // Try to find an unused one in the chain and reuse it.
        None.or_else(|| Self::traverse(|node| {'''), (LI, '''                None
            }
        })
        // If that didn't work''', '''                None
            }
        }).filter(|_| false))
        // If that didn't work''')], skip_compile_check=True),
    dict(name='m-publish-uninitialised-node', kind='mutant', props=['C11', 'C13'], expect=['C11'],
         edits=[(LI, '''            let node = Box::leak(Box::<Node>::default());
            node.helping.init();''', '''            let node = Box::leak(Box::<Node>::default());'''), (LI, '''                } else {
                    return node;''', '''                } else {
                    node.helping.init();
                    return node;''')]),
    # ------------------------------------------------------------------ mutants: API shape
    dict(name='m-store-skips-swap', kind='mutant', props=['C04'], expect=['C04'],
         edits=[(LB, '''        drop(self.swap(val));''', '''        let new = T::into_ptr(val);
        let old = self.ptr.swap(new, Ordering::SeqCst);
        unsafe { T::dec(old) };''')]),
    dict(name='m-rcu-stale-retry', kind='mutant', props=['C06'], expect=['C06'],
         edits=[(LB, '''            } else {
                cur = prev;
            }''', '''            } else {
                drop(prev);
            }''')]),
    dict(name='m-rcu-store-instead-of-cas', kind='mutant', props=['C06'], expect=['C06'],
         edits=[(LB, '''            let prev = self.compare_and_swap(&*cur, new);''', '''            let prev = Guard::<T, S>::from_inner(self.swap(new));''')], skip_compile_check=True),
    dict(name='m-cache-inverted-test', kind='mutant', props=['C16'], expect=['C16'],
         edits=[(CA, 'if cached_ptr != shared_ptr {', 'if cached_ptr == shared_ptr {')]),
    dict(name='m-cache-skip-revalidate', kind='mutant', props=['C16'], expect=['C16'],
         edits=[(CA, '''    pub fn load(&mut self) -> &T {
        self.revalidate();''', '''    pub fn load(&mut self) -> &T {
        if (self as *const Self as usize) & 0x40 == 0 {
            self.revalidate();
        }''')]),
    dict(name='m-constant-default', kind='mutant', props=['C17'], expect=['C17'],
         edits=[(AC, '''impl<T: Clone> Access<T> for Constant<T> {
    type Guard = ConstantDeref<T>;
    fn load(&self) -> Self::Guard {
        ConstantDeref(self.0.clone())''', '''impl<T: Clone + Default> Access<T> for Constant<T> {
    type Guard = ConstantDeref<T>;
    fn load(&self) -> Self::Guard {
        ConstantDeref(T::default())''')], skip_compile_check=True),
    dict(name='m-dyn-loads-twice', kind='mutant', props=['C17'], expect=['C17'],
         edits=[(AC, '''        DynGuard(Box::new(Access::load(self)))''', '''        let _warm = Access::load(self);
        DynGuard(Box::new(Access::load(self)))''')]),
    dict(name='m-serde-wrap-newtype', kind='mutant', props=['C20'], expect=['C20'],
         edits=[(SE, '''        self.load().serialize(serializer)''', '''        serializer.serialize_newtype_struct("ArcSwap", &*self.load())''')]),
    dict(name='m-serde-clone-on-deserialize', kind='mutant', props=['C20'], expect=['C20'],
         edits=[(SE, '''        Ok(Self::from(T::deserialize(deserializer)?))''', '''        let v = T::deserialize(deserializer)?;
        Ok(Self::from(v.clone()))''')]),
    dict(name='m-weak-as_ptr-no-dangling-test', kind='mutant', props=['C15'], expect=['C15'],
         edits=[(WK, '''    fn as_ptr(me: &Self) -> *mut T {
        if Weak::ptr_eq(&Weak::new(), me) {
            ptr::null_mut()
        } else {
            Weak::as_ptr(me) as *mut T
        }
    }''', '''    fn as_ptr(me: &Self) -> *mut T {
        Weak::as_ptr(me) as *mut T
    }''')]),
    dict(name='m-option-from_ptr-no-null-test', kind='mutant', props=['C15'], expect=['C15'],
         edits=[(RC, '''        if ptr.is_null() {
            None
        } else {
            Some(T::from_ptr(ptr))
        }''', '''        Some(T::from_ptr(ptr))''')]),
    dict(name='m-as_raw-clones', kind='mutant', props=['C05'], expect=['C05'],
         edits=[('src/as_raw.rs', '''impl<'a, T: RefCnt> AsRaw<T::Base> for &'a T {
    fn as_raw(&self) -> *mut T::Base {
        T::as_ptr(self)''', '''impl<'a, T: RefCnt> AsRaw<T::Base> for &'a T {
    fn as_raw(&self) -> *mut T::Base {
        T::into_ptr(T::clone(self))''')]),
    dict(name='m-unsafe-impl-send-guard', kind='mutant', props=['C19'], expect=['C19'],
         edits=[(LB, '''impl<T: RefCnt, S: Strategy<T>> Deref for Guard<T, S> {''', '''unsafe impl<T: RefCnt, S: Strategy<T>> Send for Guard<T, S> {}
impl<T: RefCnt, S: Strategy<T>> Deref for Guard<T, S> {''')]),
    dict(name='m-container-not-send', kind='mutant', props=['C19'], expect=['C19'],
         edits=[(LB, '''    _phantom_arc: PhantomData<T>,
''', '''    _phantom_arc: PhantomData<(T, *const u8)>,
''')]),
    dict(name='m-helper-ignores-address', kind='mutant', props=['C12', 'C03'], expect=['C12'],
         edits=[(HP, 'if active_addr != storage_addr {', 'if active_addr == 0 {')]),
    dict(name='m-helper-cas-fresh-control', kind='mutant', props=['C12'], expect=['C12'],
         edits=[(HP, '''                    match who
                        .control
                        .compare_exchange(control, space_addr, SeqCst, SeqCst)''', '''                    let fresh = who.control.load(SeqCst);
                    match who
                        .control
                        .compare_exchange(fresh, space_addr, SeqCst, SeqCst)''')]),
    dict(name='m-let-underscore-reservation', kind='mutant', props=['C11', 'C18', 'C01'], expect=['C11'],
         edits=[(M, 'let _reservation = node.reserve_writer();', 'let _ = node.reserve_writer();')]),
    dict(name='m-free-node-on-exit', kind='mutant', props=['C01', 'C10'], expect=['C01', 'C10'],
         edits=[(LI, '''            // Release - syncing writes/ownership of this Node
            node.start_cooldown();''', '''            // Release - syncing writes/ownership of this Node
            node.start_cooldown();
            if false { unsafe { drop(Box::from_raw(node as *const Node as *mut Node)); } }''')]),
    # ------------------------------------------------------------------ benign edits (must stay silent everywhere)
    dict(name='b-all-seqcst', kind='benign', props=ALL, expect=[],
         edits=[(H, 'let ptr = storage.load(Relaxed);', 'let ptr = storage.load(SeqCst);'),
                (LI, 'self.0.active_writers.fetch_sub(1, Release);', 'self.0.active_writers.fetch_sub(1, SeqCst);'),
                (LI, 'self.active_writers.fetch_add(1, Acquire);', 'self.active_writers.fetch_add(1, SeqCst);'),
                (LI, 'if self.in_use.load(Relaxed) == NODE_COOLDOWN', 'if self.in_use.load(SeqCst) == NODE_COOLDOWN'),
                (LI, '.compare_exchange(NODE_COOLDOWN, NODE_CHECKING, Acquire, Relaxed)', '.compare_exchange(NODE_COOLDOWN, NODE_CHECKING, SeqCst, SeqCst)'),
                (LI, 'self.in_use.store(verdict, Release);', 'self.in_use.store(verdict, SeqCst);'),
                (LI, 'self.in_use.swap(NODE_COOLDOWN, Release)', 'self.in_use.swap(NODE_COOLDOWN, SeqCst)'),
                (CA, 'self.arc_swap.ptr.load(Ordering::Relaxed)', 'self.arc_swap.ptr.load(Ordering::SeqCst)')]),
    dict(name='b-rename-locals', kind='benign', props=ALL, expect=[],
         edits=[(H, '''        let ptr = storage.load(Relaxed);
        // Try to get a debt slot. If not possible, fail.
        let debt = node.new_fast(ptr as usize)?;''', '''        let first_read = storage.load(Relaxed);
        let ptr = first_read;
        // Try to get a debt slot. If not possible, fail.
        let the_slot = node.new_fast(ptr as usize)?;
        let debt = the_slot;''')]),
    dict(name='b-extract-pay-helper', kind='benign', props=ALL, expect=[],
         edits=[(M, '''    pub(crate) fn pay<T: RefCnt>(&self, ptr: *const T::Base) -> bool {
        self.0''', '''    pub(crate) fn pay<T: RefCnt>(&self, ptr: *const T::Base) -> bool {
        self.pay_raw(ptr as usize)
    }

    #[inline]
    fn pay_raw(&self, ptr: usize) -> bool {
        self.0'''), (M, '.compare_exchange(ptr as usize, Self::NONE, SeqCst, SeqCst)', '.compare_exchange(ptr, Self::NONE, SeqCst, SeqCst)')]),
    dict(name='b-remove-debug-asserts', kind='benign', props=ALL, expect=[],
         edits=[(LI, '''        let node = &self.node.get().expect("LocalNode::with ensures it is set");
        debug_assert_eq!(node.in_use.load(Relaxed), NODE_USED);
        node.fast.get_debt(ptr, &self.fast)''', '''        let node = &self.node.get().expect("LocalNode::with ensures it is set");
        node.fast.get_debt(ptr, &self.fast)'''),
                (FA, '''                let old = slot.0.swap(ptr, SeqCst);
                debug_assert_eq!(Debt::NONE, old);''', '''                let _old = slot.0.swap(ptr, SeqCst);''')]),
    dict(name='b-sixteen-slots', kind='benign', props=ALL, expect=[],
         edits=[(FA, 'const DEBT_SLOT_CNT: usize = 8;', 'const DEBT_SLOT_CNT: usize = 16;')]),
    dict(name='b-unrelated-method', kind='benign', props=ALL, expect=[],
         edits=[(LB, '''    pub fn store(&self, val: T) {''', '''    /// The number of strategies this container was built with (always one).
    pub fn strategies(&self) -> usize {
        1
    }

    pub fn store(&self, val: T) {''')]),
    dict(name='b-attempt-as-match', kind='benign', props=ALL, expect=[],
         edits=[(H, '''        if ptr == confirm {
            // Successfully got a debt
            Some(unsafe { Self::new(ptr, Some(debt)) })
        } else if debt.pay::<T>(ptr) {
            // It changed in the meantime, we return the debt (that is on the outdated pointer,
            // possibly destroyed) and fail.
            None
        } else {
            // It changed in the meantime, but the debt for the previous pointer was already paid
            // for by someone else, so we are fine using it.
            Some(unsafe { Self::new(ptr, None) })
        }''', '''        if ptr != confirm {
            return match debt.pay::<T>(ptr) {
                true => None,
                false => Some(unsafe { Self::new(ptr, None) }),
            };
        }
        Some(unsafe { Self::new(ptr, Some(debt)) })''')]),
    dict(name='b-help-swap-independent-loads', kind='benign', props=ALL, expect=[],
         edits=[(HP, '''                    let their_space = who.space_offer.load(SeqCst);
                    // Relaxed is fine, our own thread and nobody but us writes in here.
                    let my_space = self.space_offer.load(SeqCst);''', '''                    let my_space = self.space_offer.load(SeqCst);
                    let their_space = who.space_offer.load(SeqCst);''')]),
    dict(name='b-dec-spelled-out', kind='benign', props=ALL, expect=[],
         edits=[(H, '''                if !unused_debt.pay::<T>(candidate) {
                    unsafe { T::dec(candidate) };
                }''', '''                if !unused_debt.pay::<T>(candidate) {
                    drop(unsafe { T::from_ptr(candidate) });
                }''')]),
    dict(name='b-cas-hoist-current-raw', kind='benign', props=ALL, expect=[],
         edits=[(H, '''        loop {
            let old = <Self as InnerStrategy<T>>::load(self, storage);
            // Observation of their inequality is enough to make a verdict
            if old.as_ptr() != current.as_raw() {''', '''        let cur_raw = current.as_raw();
        loop {
            let old = <Self as InnerStrategy<T>>::load(self, storage);
            // Observation of their inequality is enough to make a verdict
            if old.as_ptr() != cur_raw {'''), (H, '.compare_exchange_weak(current.as_raw(), new_raw, SeqCst, Relaxed)', '.compare_exchange_weak(cur_raw, new_raw, SeqCst, Relaxed)')]),
    dict(name='b-chain-in-let', kind='benign', props=ALL, expect=[],
         edits=[(M, '''                let all_slots = node
                    .fast_slots()
                    .chain(core::iter::once(node.helping_slot()));''', '''                let fast = node.fast_slots();
                let helping = core::iter::once(node.helping_slot());
                let all_slots = fast.chain(helping);''')]),
    dict(name='b-docs-and-comments', kind='benign', props=ALL, expect=[],
         edits=[(H, '        // Relaxed is good enough here, see the Acquire below\n', '        // Relaxed is good enough here, see the Acquire below.\n        //\n        // (A longer explanation that moves every following line down by three.)\n')]),
]

CASES += [
    dict(name='m-pay-weak-cas', kind='mutant', props=['C02', 'C12'], expect=['C02'],
         edits=[(M, '.compare_exchange(ptr as usize, Self::NONE, SeqCst, SeqCst)', '.compare_exchange_weak(ptr as usize, Self::NONE, SeqCst, SeqCst)')]),
    dict(name='m-slot-after-idle', kind='mutant', props=['C01', 'C03'], expect=['C01'],
         edits=[(HP, '''        let prev = self.slot.0.swap(ptr, SeqCst);
        debug_assert_eq!(Debt::NONE, prev);
''', ''), (HP, '''        let control = self.control.swap(IDLE, SeqCst);
        if control == gen {''', '''        let control = self.control.swap(IDLE, SeqCst);
        let prev = self.slot.0.swap(ptr, SeqCst);
        debug_assert_eq!(Debt::NONE, prev);
        if control == gen {''')]),
    dict(name='b-protect-confirm-value', kind='benign', props=ALL, expect=[],
         edits=[(H, '''            Some(unsafe { Self::new(ptr, Some(debt)) })
        } else if''', '''            Some(unsafe { Self::new(confirm, Some(debt)) })
        } else if''')]),
]

CASES += [
    dict(name='b-pay-loop-for-each', kind='benign', props=ALL, expect=[],
         edits=[(M, '''                for slot in all_slots {
                    // Note: Release is enough even here. That makes sure the increment is
                    // visible to whoever might acquire on this slot and can't leak below this.
                    // And we are the ones doing decrements anyway.
                    if slot.pay::<T>(ptr) {
                        // Pre-pay one more, for another future slot
                        T::inc(&val);
                    }
                }''', '''                all_slots.for_each(|slot| {
                    if slot.pay::<T>(ptr) {
                        // Pre-pay one more, for another future slot
                        T::inc(&val);
                    }
                });''')]),
    dict(name='m-for-each-take-7', kind='mutant', props=['C01'], expect=['C01'],
         edits=[(M, '''                for slot in all_slots {
                    // Note: Release is enough even here. That makes sure the increment is
                    // visible to whoever might acquire on this slot and can't leak below this.
                    // And we are the ones doing decrements anyway.
                    if slot.pay::<T>(ptr) {
                        // Pre-pay one more, for another future slot
                        T::inc(&val);
                    }
                }''', '''                all_slots.take(8).for_each(|slot| {
                    if slot.pay::<T>(ptr) {
                        // Pre-pay one more, for another future slot
                        T::inc(&val);
                    }
                });''')]),
]

CASES += [
    dict(name='m-help-without-own-reservation', kind='mutant', props=['C13', 'C12', 'C11'], expect=['C13', 'C12'],
         edits=[(LI, '''        let _reservation = node.reserve_writer();
        node.helping.help(&who.helping, storage_addr, replacement)''', '''        node.helping.help(&who.helping, storage_addr, replacement)''')]),
]

CASES += [
    # revert of fix: 9fce248 (poison-tolerant lock acquisition in the RwLock<()> strategy)
    dict(name='m-rwlock-expect-on-poison', kind='mutant', props=['C18', 'C13', 'C14'], expect=['C18', 'C13'],
         edits=[(RW, 'let _guard = self.read().unwrap_or_else(PoisonError::into_inner);', 'let _guard = self.read().expect("We don\'t panic in here");'),
                (RW, 'drop(self.write().unwrap_or_else(PoisonError::into_inner));', 'drop(self.write().expect("We don\'t panic in here"));'),
                (RW, 'use std::sync::{PoisonError, RwLock};', 'use std::sync::RwLock;')]),
    # wave-4 additive API: a DerefMut for Guard that lends the borrowed pointer mutably
    dict(name='m-protection-borrow-mut', kind='mutant', props=['C01', 'C10'], expect=['C01', 'C10'],
         edits=[(H, '''impl<T: RefCnt> Borrow<T> for HybridProtection<T> {''', '''impl<T: RefCnt> HybridProtection<T> {
    pub(crate) fn ptr_mut(&mut self) -> &mut T {
        &mut self.ptr
    }
}

impl<T: RefCnt> Borrow<T> for HybridProtection<T> {''')]),
]

CASES += [
    # revert of fix: 6fe7eaf (exclusive CHECKING state in check_cooldown): the check-then-exchange shape
    dict(name='m-cooldown-check-then-exchange', kind='mutant', props=['C11', 'C12', 'C01'], expect=['C11', 'C12', 'C01'],
         edits=[(LI, '''        if self.in_use.load(Relaxed) == NODE_COOLDOWN
            && self
                .in_use
                .compare_exchange(NODE_COOLDOWN, NODE_CHECKING, Acquire, Relaxed)
                .is_ok()
        {''', '''        if self.in_use.load(Acquire) == NODE_COOLDOWN {'''),
                (LI, '''            let verdict = if self.active_writers.load(Relaxed) == 0 {
                NODE_UNUSED
            } else {
                NODE_COOLDOWN
            };''', '''            if self.active_writers.load(Relaxed) == 0 {
                let _ = self
                    .in_use
                    .compare_exchange(NODE_COOLDOWN, NODE_UNUSED, Relaxed, Relaxed);
            }'''),
                (LI, '''            self.in_use.store(verdict, Release);''', ''''''),
                (LI, '''const NODE_CHECKING: usize = 3;''', '''#[allow(dead_code)]
const NODE_CHECKING: usize = 3;''')]),
    # the seeded C11-w3m1 / C11-m1 ideas ported to the repaired shape: the writers are looked at BEFORE the exclusive state is taken
    dict(name='m-cooldown-verdict-before-exclusive', kind='mutant', props=['C11', 'C12'], expect=['C11', 'C12'],
         edits=[(LI, '''        if self.in_use.load(Relaxed) == NODE_COOLDOWN
            && self''', '''        let quiet = self.active_writers.load(Relaxed) == 0;
        if self.in_use.load(Relaxed) == NODE_COOLDOWN
            && self'''),
                (LI, '''            let verdict = if self.active_writers.load(Relaxed) == 0 {''', '''            let verdict = if quiet {''')]),
    # ... and the verdict stored Relaxed (weak-memory only: the claimer no longer synchronises with the previous owner)
    dict(name='m-cooldown-verdict-relaxed', kind='mutant', props=['C11', 'C07'], expect=['C11', 'C07'],
         edits=[(LI, 'self.in_use.store(verdict, Release);', 'self.in_use.store(verdict, Relaxed);')]),
    # benign: no fast pre-check load before the exclusive exchange
    dict(name='b-cooldown-no-precheck', kind='benign', props=ALL, expect=[],
         edits=[(LI, '''        if self.in_use.load(Relaxed) == NODE_COOLDOWN
            && self
                .in_use''', '''        if self
                .in_use''')]),
]

CASES += [
    # revert of fix: 17975ca (destructors run under the write lock of the RwLock<()> strategy)
    dict(name='m-rwlock-drop-under-lock', kind='mutant', props=['C13', 'C18', 'C14'], expect=['C13', 'C18'],
         edits=[(RW, '''        drop(lock);
        if swapped.is_err() {
            // ... and destroy the new one that didn't go in.
            drop(T::from_ptr(new));
        }
        drop(current);
        old''', '''        if swapped.is_err() {
            // ... and destroy the new one that didn't go in.
            drop(T::from_ptr(new));
        }
        drop(current);
        drop(lock);
        old''')]),
]

CASES += [
    # revert of fix: 0213201 (the candidate load of the helping fallback is one half of a store-buffering pair)
    dict(name='m-fallback-candidate-acquire', kind='mutant', props=['C07', 'C01', 'C03'], expect=['C07', 'C01', 'C03'],
         edits=[(H, 'let candidate = storage.load(SeqCst);', 'let candidate = storage.load(Acquire);')]),
]

CASES += [
    # revert of fix: e36648a (a failed pay-back must acquire the reader's Release)
    dict(name='m-pay-relaxed-failure', kind='mutant', props=['C07', 'C04'], expect=['C07', 'C04'],
         edits=[(M, '.compare_exchange(ptr as usize, Self::NONE, SeqCst, SeqCst)', '.compare_exchange(ptr as usize, Self::NONE, Release, Relaxed)')]),
]

CASES += [
    # revert of fix: 756aa49 (the handle is converted with into_ptr after its count went with the exchange), one case per site
    dict(name='m-into-ptr-after-publish-cas', kind='mutant', props=['C01', 'C05', 'C18'], expect=['C01', 'C05'],
         edits=[(H, 'core::mem::forget(new);', 'T::into_ptr(new);')]),
    dict(name='m-into-ptr-after-handover', kind='mutant', props=['C01', 'C03'], expect=['C01', 'C03'],
         edits=[(HP, 'core::mem::forget(replacement);', 'T::into_ptr(replacement);')]),
]

CASES += [
    # revert of fix: a417e9e (the pointer a failed exchange of the RwLock<()> strategy hands back is read Relaxed)
    dict(name='m-rwlock-cas-fail-relaxed', kind='mutant', props=['C07', 'C14'], expect=['C07'],
         edits=[(RW, 'Ordering::AcqRel, Ordering::Acquire);', 'Ordering::AcqRel, Ordering::Relaxed);')]),
    # revert of fix: 1f3ee2a (user-supplied values destroyed while the answer sits in the return place), one case per site
    dict(name='m-return-slot-cas', kind='mutant', props=['C18', 'C05'], expect=['C18'],
         edits=[(H, '''                drop(new);
                drop(current);
                return old;''', '''                return old;''')]),
    dict(name='m-return-slot-rcu', kind='mutant', props=['C18', 'C06'], expect=['C18'],
         edits=[(LB, '''                drop(cur);
                drop(f);
                return prev;''', '''                return prev;''')]),
    # a by-value `current` (a Guard, an Arc: its destructor may be the pointee's) destroyed while the count taken out of the storage
    # is still a raw pointer
    dict(name='m-cas-drop-current-before-dec', kind='mutant', props=['C18', 'C05'], expect=['C18'],
         edits=[(H, '''                T::dec(old.as_ptr());
                // See above.
                drop(current);''', '''                drop(current);
                T::dec(old.as_ptr());''')]),
    # wave 7: the transaction counter is incremented but not stored back (every transaction carries the same generation)
    dict(name='m-generation-not-stored', kind='mutant', props=['C03', 'C13', 'C17'], expect=['C03', 'C13', 'C17'],
         edits=[(HP, '''        local.generation.set(gen);
''', '''''')]),
    # wave 7: the emptiness test of rc::Weak compares the handle with itself
    dict(name='m-weak-empty-self-compare', kind='mutant', props=['C15'], expect=['C15'],
         edits=[(WK, '''        if RcWeak::ptr_eq(&RcWeak::new(), me) {''', '''        if RcWeak::ptr_eq(me, me) {''')]),
    # wave 9: the cache skips its refresh in some state of the thread (here: while unwinding)
    dict(name='m-cache-skip-when-panicking', kind='mutant', props=['C16'], expect=['C16'],
         edits=[(CA, '''        if cached_ptr != shared_ptr {
            self.cached = self.arc_swap.load_full();''', '''        if cached_ptr != shared_ptr {
            if std::thread::panicking() {
                return;
            }
            self.cached = self.arc_swap.load_full();''')]),
    # wave 9: a conversion of the wrong pointer kind type-checks on the same `*const T`
    dict(name='m-weak-from-raw-wrong-kind', kind='mutant', props=['C15'], expect=['C15'],
         edits=[(WK, '''            Weak::new()
        } else {
            Weak::from_raw(ptr)''', '''            Weak::new()
        } else {
            core::mem::transmute::<RcWeak<T>, Weak<T>>(RcWeak::from_raw(ptr))''')]),
    # the helper of rcu takes the guard of the running attempt by value: it is destroyed after the answer sits in the helper's return place
    dict(name='m-rcu-helper-by-value', kind='mutant', props=['C18', 'C06'], expect=['C18'],
         edits=[(LB, '''            let prev = self.compare_and_swap(&*cur, new);
            let swapped = ptr_eq(&*cur, &*prev);
            if swapped {
                let prev = Guard::into_inner(prev);
                // Arbitrary destructors (the closure may own things) run before the result goes
                // out: a return value is not released if something panics while the function
                // is being left.
                drop(cur);
                drop(f);
                return prev;
            } else {
                cur = prev;
            }''', '''            cur = match self.rcu_attempt(cur, new) {
                Ok(prev) => {
                    drop(f);
                    return prev;
                }
                Err(seen) => seen,
            };'''),
                (LB, '''    /// Provides an access to an up to date projection of the carried data.
    ///
    /// # Motivation''', '''    fn rcu_attempt(&self, cur: Guard<T, S>, new: T) -> Result<T, Guard<T, S>>
    where
        S: CaS<T>,
    {
        let prev = self.compare_and_swap(&*cur, new);
        if ptr_eq(&*cur, &*prev) {
            Ok(Guard::into_inner(prev))
        } else {
            Err(prev)
        }
    }

    /// Provides an access to an up to date projection of the carried data.
    ///
    /// # Motivation''')]),
]

CASES += [
    # second closure-splicing pass (after helper splicing): a generic private helper that CALLS the closure handed to it (R21-03)
    dict(name='b-helper-calls-closure', kind='benign', props=['C15'], expect=[],
         edits=[(WK, 'unsafe impl<T> RefCnt for Weak<T> {', '\nfn null_or_else<T, F: FnOnce() -> *const T>(empty: bool, convert: F) -> *mut T {\n    if empty {\n        ptr::null_mut()\n    } else {\n        convert() as *mut T\n    }\n}\n\nunsafe impl<T> RefCnt for Weak<T> {'),
                (WK, '''        if Weak::ptr_eq(&Weak::new(), &me) {
            ptr::null_mut()
        } else {
            Weak::into_raw(me) as *mut T
        }''', '''        let empty = Weak::ptr_eq(&Weak::new(), &me);
        null_or_else(empty, move || Weak::into_raw(me))''')]),
    # ... and the same shape with the conversion that does not give the count away
    dict(name='m-helper-calls-closure-as-ptr', kind='mutant', props=['C15'], expect=['C15'],
         edits=[(WK, 'unsafe impl<T> RefCnt for Weak<T> {', '\nfn null_or_else<T, F: FnOnce() -> *const T>(empty: bool, convert: F) -> *mut T {\n    if empty {\n        ptr::null_mut()\n    } else {\n        convert() as *mut T\n    }\n}\n\nunsafe impl<T> RefCnt for Weak<T> {'),
                (WK, '''        if Weak::ptr_eq(&Weak::new(), &me) {
            ptr::null_mut()
        } else {
            Weak::into_raw(me) as *mut T
        }''', '''        let empty = Weak::ptr_eq(&Weak::new(), &me);
        null_or_else(empty, move || Weak::as_ptr(&me))''')]),
]
CASES += [
    # wave 10 (C20): Serialize borrows the value through the DEFAULT strategy whatever strategy the container has (RwLock<()> writers never honour that debt)
    dict(name='m-serialize-foreign-strategy', kind='mutant', props=['C20'], expect=['C20'],
         edits=[(SE, 'use crate::{ArcSwapAny, RefCnt, Strategy};', 'use core::borrow::Borrow;\nuse crate::strategy::sealed::InnerStrategy;\nuse crate::{ArcSwapAny, DefaultStrategy, RefCnt, Strategy};'),
                (SE, 'self.load().serialize(serializer)', '''let protected = unsafe { DefaultStrategy::default().load(&self.ptr) };
        let current: &T = protected.borrow();
        current.serialize(serializer)''')]),
]
