//! Monomorphic entry points ("roots") for the fact extractor. No logic lives here: each `root_*`
//! function calls exactly one public API of arc-swap for one pointer kind and one strategy, so that
//! the driver's mono mode can walk the instantiated call graph below it.
//!
//! Naming: root_<group>_<op>__<kind>__<strategy>
//!   groups: r = reader, g = guard ops, w = writer, c = constructors/destructor, a = Access,
//!           k = Cache, f = fmt, s = serde, x = positive controls for zero-expected queries
//! Never executed. Never linked into anything.
#![allow(deprecated, clippy::all, unused)]

use arc_swap::access::{Access, AccessConvert, Constant, DynAccess, Map};
use arc_swap::cache::{Access as CacheAccess, Cache};
use arc_swap::strategy::DefaultStrategy;
use arc_swap::{ArcSwapAny, Guard};
use std::rc::Rc;
use std::sync::Arc;

/// Stand-in for "arbitrary user code" (a pointee destructor, an rcu closure body, a projection).
#[inline(never)]
pub fn user_code() {}

/// Pointee with a real destructor, so that pointee drop glue is an edge in the call graph.
pub struct D(pub u32, pub u32);
impl Drop for D {
    fn drop(&mut self) {
        user_code();
    }
}

pub type KArc = Arc<D>;
pub type KOptArc = Option<Arc<D>>;
pub type KRc = Rc<D>;
pub type KOptRc = Option<Rc<D>>;
#[cfg(feature = "weak")]
pub type KWeak = std::sync::Weak<D>;
#[cfg(feature = "weak")]
pub type KRcWeak = std::rc::Weak<D>;

pub type SDefault = DefaultStrategy;
#[cfg(feature = "internal-test-strategies")]
pub type SFill = arc_swap::strategy::test_strategies::FillFastSlots;
#[cfg(feature = "internal-test-strategies")]
pub type SRwLock = std::sync::RwLock<()>;

macro_rules! core_roots {
    ($k:ident, $kt:ty, $s:ident, $st:ty) => {
        mod $k {
            pub mod $s {
                use super::super::*;
                type A = ArcSwapAny<$kt, $st>;
                type G = Guard<$kt, $st>;
                // ---- readers
                pub fn root_r_load(a: &A) -> G {
                    a.load()
                }
                pub fn root_r_load_full(a: &A) -> $kt {
                    a.load_full()
                }
                // ---- guard operations
                pub fn root_g_drop(g: G) {
                    drop(g)
                }
                pub fn root_g_into_inner(g: G) -> $kt {
                    Guard::into_inner(g)
                }
                pub fn root_g_from_inner(v: $kt) -> G {
                    Guard::from_inner(v)
                }
                pub fn root_g_deref(g: &G) -> &$kt {
                    &**g
                }
                // ---- writers
                pub fn root_w_store(a: &A, v: $kt) {
                    a.store(v)
                }
                pub fn root_w_swap(a: &A, v: $kt) -> $kt {
                    a.swap(v)
                }
                pub fn root_w_cas_ref(a: &A, c: &$kt, v: $kt) -> G {
                    a.compare_and_swap(c, v)
                }
                pub fn root_w_cas_raw_const(a: &A, c: *const <$kt as arc_swap::RefCnt>::Base, v: $kt) -> G {
                    a.compare_and_swap(c, v)
                }
                pub fn root_w_cas_raw_mut(a: &A, c: *mut <$kt as arc_swap::RefCnt>::Base, v: $kt) -> G {
                    a.compare_and_swap(c, v)
                }
                pub fn root_w_rcu(a: &A) -> $kt {
                    a.rcu(|cur| {
                        user_code();
                        <$kt as Clone>::clone(cur)
                    })
                }
                pub fn root_w_into_inner(a: A) -> $kt {
                    a.into_inner()
                }
                // ---- constructors / destructor
                pub fn root_c_new(v: $kt) -> A {
                    A::new(v)
                }
                pub fn root_c_from(v: $kt) -> A {
                    A::from(v)
                }
                pub fn root_c_with_strategy(v: $kt, s: $st) -> A {
                    A::with_strategy(v, s)
                }
                pub fn root_c_drop(a: A) {
                    drop(a)
                }
                // ---- generic Access
                pub fn root_a_access_load(a: &A) -> G {
                    <A as Access<$kt>>::load(a)
                }
                pub fn root_a_access_load_via_ref(a: &&A) -> G {
                    <&A as Access<$kt>>::load(a)
                }
                // ---- Cache
                pub fn root_k_cache_new(a: &A) -> Cache<&A, $kt> {
                    Cache::new(a)
                }
                pub fn root_k_cache_load<'c>(c: &'c mut Cache<&A, $kt>) -> &'c $kt {
                    c.load()
                }
                pub fn root_k_cache_drop(c: Cache<&A, $kt>) {
                    drop(c)
                }
                pub fn root_k_mapcache_load<'c>(
                    c: &'c mut arc_swap::cache::MapCache<&A, $kt, fn(&$kt) -> &$kt>,
                ) -> &'c $kt {
                    CacheAccess::load(c)
                }
            }
        }
    };
}

// CaS with guards as `current` exists only for the default strategy (AsRaw for Guard<T>).
macro_rules! guard_cas_roots {
    ($k:ident, $kt:ty) => {
        pub mod $k {
            use super::super::*;
            type A = ArcSwapAny<$kt, DefaultStrategy>;
            type G = Guard<$kt, DefaultStrategy>;
            pub fn root_w_cas_guard(a: &A, c: G, v: $kt) -> G {
                a.compare_and_swap(c, v)
            }
            pub fn root_w_cas_guard_ref(a: &A, c: &G, v: $kt) -> G {
                a.compare_and_swap(c, v)
            }
        }
    };
}

// Access machinery that needs a Deref-to-pointee kind (Arc / Rc).
macro_rules! access_roots {
    ($k:ident, $kt:ty, $s:ident, $st:ty) => {
        pub mod $k {
            pub mod $s {
                use super::super::super::*;
                type A = ArcSwapAny<$kt, $st>;
                fn proj(d: &D) -> &u32 {
                    user_code();
                    &d.0
                }
                fn proj2(d: &u32) -> &u32 {
                    d
                }
                type M1<'a> = Map<&'a A, D, fn(&D) -> &u32>;
                type M2<'a> = Map<M1<'a>, u32, fn(&u32) -> &u32>;
                pub fn root_a_direct_load(a: &A) -> <A as Access<D>>::Guard {
                    <A as Access<D>>::load(a)
                }
                pub fn root_a_direct_deref(g: &<A as Access<D>>::Guard) -> &D {
                    &**g
                }
                pub fn root_a_direct_drop(g: <A as Access<D>>::Guard) {
                    drop(g)
                }
                pub fn root_a_map_new(a: &A) -> M1<'_> {
                    a.map(proj as fn(&D) -> &u32)
                }
                pub fn root_a_map1_load<'a>(m: &M1<'a>) -> <M1<'a> as Access<u32>>::Guard {
                    Access::load(m)
                }
                pub fn root_a_map1_deref<'g, 'a>(g: &'g <M1<'a> as Access<u32>>::Guard) -> &'g u32 {
                    &**g
                }
                pub fn root_a_map2_load<'a>(m: &M2<'a>) -> <M2<'a> as Access<u32>>::Guard {
                    Access::load(m)
                }
                pub fn root_a_map2_deref<'g, 'a>(g: &'g <M2<'a> as Access<u32>>::Guard) -> &'g u32 {
                    &**g
                }
                pub fn root_a_dyn_load(a: &'static A) -> arc_swap::access::DynGuard<D> {
                    <A as DynAccess<D>>::load(a)
                }
                pub fn root_a_dyn_virtual_load(a: &dyn DynAccess<D>) -> arc_swap::access::DynGuard<D> {
                    <dyn DynAccess<D> as Access<D>>::load(a)
                }
                pub fn root_a_dyn_deref(g: &arc_swap::access::DynGuard<D>) -> &D {
                    &**g
                }
                pub fn root_a_convert_load(c: &AccessConvert<Box<dyn DynAccess<D>>>) -> arc_swap::access::DynGuard<D> {
                    Access::load(c)
                }
                pub fn root_k_cache_access_load<'c>(c: &'c mut Cache<&A, $kt>) -> &'c D {
                    CacheAccess::load(c)
                }
            }
        }
    };
}

macro_rules! fmt_roots {
    ($k:ident, $kt:ty, $s:ident, $st:ty) => {
        pub mod $k {
            pub mod $s {
                use super::super::super::*;
                type A = ArcSwapAny<$kt, $st>;
                pub fn root_f_debug(a: &A, f: &mut std::fmt::Formatter<'_>) -> std::fmt::Result {
                    std::fmt::Debug::fmt(a, f)
                }
                pub fn root_f_display(a: &A, f: &mut std::fmt::Formatter<'_>) -> std::fmt::Result {
                    std::fmt::Display::fmt(a, f)
                }
                pub fn root_c_default() -> A {
                    A::default()
                }
                pub fn root_c_from_pointee(v: u32) -> A {
                    A::from_pointee(v)
                }
            }
        }
    };
}

// Expand the matrix by hand (macro-in-macro hygiene makes the nested form unreadable).
pub mod default_ {
    use super::*;
    core_roots!(arc, KArc, default, SDefault);
    core_roots!(optarc, KOptArc, default, SDefault);
    core_roots!(rc, KRc, default, SDefault);
    core_roots!(optrc, KOptRc, default, SDefault);
    #[cfg(feature = "weak")]
    core_roots!(weak, KWeak, default, SDefault);
    #[cfg(feature = "weak")]
    core_roots!(rcweak, KRcWeak, default, SDefault);
}

#[cfg(feature = "internal-test-strategies")]
pub mod fill_ {
    use super::*;
    core_roots!(arc, KArc, fill, SFill);
    core_roots!(optarc, KOptArc, fill, SFill);
    core_roots!(rc, KRc, fill, SFill);
    core_roots!(optrc, KOptRc, fill, SFill);
    #[cfg(feature = "weak")]
    core_roots!(weak, KWeak, fill, SFill);
    #[cfg(feature = "weak")]
    core_roots!(rcweak, KRcWeak, fill, SFill);
}

#[cfg(feature = "internal-test-strategies")]
pub mod rwlock_ {
    use super::*;
    core_roots!(arc, KArc, rwlock, SRwLock);
    core_roots!(optarc, KOptArc, rwlock, SRwLock);
    core_roots!(rc, KRc, rwlock, SRwLock);
    core_roots!(optrc, KOptRc, rwlock, SRwLock);
    #[cfg(feature = "weak")]
    core_roots!(weak, KWeak, rwlock, SRwLock);
}

pub mod guardcas_ {
    use super::*;
    guard_cas_roots!(arc, KArc);
    guard_cas_roots!(optarc, KOptArc);
    guard_cas_roots!(rc, KRc);
    #[cfg(feature = "weak")]
    guard_cas_roots!(weak, KWeak);
}

pub mod access_ {
    use super::*;
    access_roots!(arc, KArc, default, SDefault);
    pub mod more {
        use super::*;
        access_roots!(rc, KRc, default, SDefault);
    }
    #[cfg(feature = "internal-test-strategies")]
    pub mod fill {
        use super::*;
        access_roots!(arc, KArc, fill, SFill);
    }
    #[cfg(feature = "internal-test-strategies")]
    pub mod rwlock {
        use super::*;
        access_roots!(arc, KArc, rwlock, SRwLock);
    }
}

pub mod fmt_ {
    use super::*;
    fmt_roots!(arc, Arc<u32>, default, SDefault);
    #[cfg(feature = "internal-test-strategies")]
    pub mod fill {
        use super::*;
        fmt_roots!(arc, Arc<u32>, fill, SFill);
    }
}

pub mod misc_ {
    use super::*;
    pub fn root_c_opt_empty() -> ArcSwapAny<Option<Arc<D>>, SDefault> {
        ArcSwapAny::<Option<Arc<D>>, SDefault>::empty()
    }
    pub fn root_c_opt_const_empty() -> arc_swap::ArcSwapOption<D> {
        arc_swap::ArcSwapOption::<D>::const_empty()
    }
    pub fn root_c_opt_from_pointee(v: D) -> ArcSwapAny<Option<Arc<D>>, SDefault> {
        ArcSwapAny::<Option<Arc<D>>, SDefault>::from_pointee(v)
    }
    pub fn root_a_constant_load(c: &Constant<u32>) -> <Constant<u32> as Access<u32>>::Guard {
        Access::load(c)
    }
    pub fn root_a_constant_deref(g: &<Constant<u32> as Access<u32>>::Guard) -> &u32 {
        &**g
    }
    pub fn root_g_default() -> Guard<Option<Arc<D>>, SDefault> {
        Default::default()
    }
    pub fn root_g_from(v: Arc<D>) -> Guard<Arc<D>, SDefault> {
        Guard::from(v)
    }
    pub fn root_k_cache_arc_new(a: Arc<ArcSwapAny<Arc<D>, SDefault>>) -> Cache<Arc<ArcSwapAny<Arc<D>, SDefault>>, Arc<D>> {
        Cache::new(a)
    }
    pub fn root_k_cache_arc_load(c: &mut Cache<Arc<ArcSwapAny<Arc<D>, SDefault>>, Arc<D>>) -> &Arc<D> {
        c.load()
    }
    pub fn root_k_cache_from(a: &ArcSwapAny<Arc<D>, SDefault>) -> Cache<&ArcSwapAny<Arc<D>, SDefault>, Arc<D>> {
        Cache::from(a)
    }
}

#[cfg(feature = "serde")]
pub mod serde_ {
    use super::*;
    use serde::{Deserialize, Deserializer, Serialize, Serializer};
    /// A serializer / deserializer we know nothing about: generic roots cannot be mono roots, so
    /// the concrete ones below use serde's own value deserializer and a fmt-based serializer.
    pub fn root_s_serialize_arc(
        a: &ArcSwapAny<Arc<u32>, SDefault>,
        s: &mut std::fmt::Formatter<'_>,
    ) -> std::fmt::Result {
        a.serialize(s)
    }
    pub fn root_s_serialize_optarc(
        a: &ArcSwapAny<Option<Arc<u32>>, SDefault>,
        s: &mut std::fmt::Formatter<'_>,
    ) -> std::fmt::Result {
        a.serialize(s)
    }
    pub fn root_s_deserialize_arc(
        d: serde::de::value::U32Deserializer<serde::de::value::Error>,
    ) -> Result<ArcSwapAny<Arc<u32>, SDefault>, serde::de::value::Error> {
        ArcSwapAny::<Arc<u32>, SDefault>::deserialize(d)
    }
    pub fn root_s_deserialize_optarc(
        d: serde::de::value::U32Deserializer<serde::de::value::Error>,
    ) -> Result<ArcSwapAny<Option<Arc<u32>>, SDefault>, serde::de::value::Error> {
        ArcSwapAny::<Option<Arc<u32>>, SDefault>::deserialize(d)
    }
}

/// Positive controls for zero-expected queries (NEVER-FREED, NO-BLOCK).
pub mod control_ {
    pub fn root_x_box_drop(b: Box<u8>) {
        drop(b)
    }
    pub fn root_x_mutex_lock(m: &std::sync::Mutex<u8>) -> u8 {
        *m.lock().unwrap()
    }
    pub fn root_x_loop(n: usize) -> usize {
        let mut i = 0;
        while i < n {
            i += 1;
        }
        i
    }
}
