#!/bin/bash
# dev helper: one extraction into $1 (scratch dir), features $2
S=$1; mkdir -p $S/roots/src $S/facts; cp /verif/roots/src/lib.rs $S/roots/src/; sed "s#@REPO@#${REPO:-/repo}#" /verif/roots/Cargo.toml.in > $S/roots/Cargo.toml; cp ${REPO:-/repo}/Cargo.lock $S/roots/; cd $S/roots
rm -rf $S/target
LD_LIBRARY_PATH=$(rustc +nightly --print sysroot)/lib ASV_FACTS_DIR=$S/facts RUSTFLAGS="-Zmir-opt-level=0 -Zalways-encode-mir -Awarnings" RUSTC_WRAPPER=/verif/driver/target/release/asv-driver CARGO_TARGET_DIR=$S/target cargo +nightly check --offline --features "$2" 2>&1 | grep -v "^\s*[0-9]*:" | tail -${3:-30}
ls -la $S/facts
