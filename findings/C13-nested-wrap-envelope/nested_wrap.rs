//! Deterministic demonstration: a writer keeps using its debt node's hand-over envelope after a
//! nested load (the `replacement()` callback inside `helping::Slots::help`) wrapped the helping
//! generation, released that node and re-attached the thread to a different one.
//!
//! Run with:
//!
//! ```text
//! cargo test --offline --features internal-test-strategies --test nested_wrap -- --nocapture
//! ```
//!
//! There must be exactly ONE test in this file: the debt node list is a process-wide global and
//! the demonstration depends on its layout.
#![cfg(feature = "internal-test-strategies")]
#![allow(deprecated)]

use std::cell::Cell;
use std::sync::{Arc, Condvar, Mutex, OnceLock};
use std::thread;
use std::time::Duration;

use arc_swap::demo_support as ds;
use arc_swap::strategy::test_strategies::FillFastSlots;
use arc_swap::strategy::{DefaultStrategy, Strategy};
use arc_swap::{ArcSwap, ArcSwapAny};

// Every load goes through the slow (helping) path with the FillFastSlots strategy. The same path
// is taken by the default strategy when the thread holds 8 guards (or more); set
// NESTED_WRAP_DEFAULT_STRATEGY=1 to run the same scenario that way.
type Shared<S> = ArcSwapAny<Arc<String>, S>;

/// Occupy all the fast slots of the current thread, the way an application holding 8 `Guard`s
/// does. Only used with the default strategy.
fn hold_guards(enabled: bool) -> Vec<arc_swap::Guard<Arc<usize>>> {
    static FILLER: OnceLock<ArcSwap<usize>> = OnceLock::new();
    let filler = FILLER.get_or_init(|| ArcSwap::from_pointee(42));
    let count = if enabled { 8 } else { 0 };
    (0..count).map(|_| filler.load()).collect()
}

#[derive(Copy, Clone, Debug, PartialEq, Eq)]
enum Role {
    None,
    W,
    R1,
    R2,
    T2,
}

thread_local! {
    static ROLE: Cell<Role> = Cell::new(Role::None);
    // Each role blocks at most once at its pause point.
    static PAUSED_ALREADY: Cell<bool> = Cell::new(false);
}

#[derive(Default)]
struct Gates {
    arrived: Vec<Role>,
    released: Vec<Role>,
}

static GATES: Mutex<Option<Gates>> = Mutex::new(None);
static CV: Condvar = Condvar::new();

const TIMEOUT: Duration = Duration::from_secs(20);

/// Called from inside the library at the named pause points.
fn hook(point: &'static str) {
    let role = ROLE.with(|r| r.get());
    let block = match (role, point) {
        // The readers stop in the middle of the slow-path load: generation published in their
        // node's control word, not confirmed yet.
        (Role::R1, "fallback:before_confirm") | (Role::R2, "fallback:before_confirm") => true,
        // The writer W stops inside `Slots::help`, after `replacement()` returned and after it
        // read `self.space_offer` ‒ `self` being the node it owned when it entered `help`.
        (Role::W, "help:after_my_space") => true,
        _ => false,
    };
    if !block || PAUSED_ALREADY.with(|p| p.replace(true)) {
        return;
    }
    let mut g = GATES.lock().unwrap();
    g.as_mut().unwrap().arrived.push(role);
    CV.notify_all();
    let (_g, timeout) = CV
        .wait_timeout_while(g, TIMEOUT, |g| {
            !g.as_ref().unwrap().released.contains(&role)
        })
        .unwrap();
    assert!(!timeout.timed_out(), "{:?} stuck at {}", role, point);
}

fn wait_arrived(role: Role) {
    let g = GATES.lock().unwrap();
    let (_g, timeout) = CV
        .wait_timeout_while(g, TIMEOUT, |g| !g.as_ref().unwrap().arrived.contains(&role))
        .unwrap();
    assert!(!timeout.timed_out(), "{:?} never arrived at its pause", role);
}

fn release(role: Role) {
    GATES.lock().unwrap().as_mut().unwrap().released.push(role);
    CV.notify_all();
}

fn state_name(s: usize) -> &'static str {
    match s {
        0 => "UNUSED",
        1 => "USED",
        2 => "COOLDOWN",
        _ => "???",
    }
}

fn dump(title: &str, names: &[(usize, &str)]) {
    println!("  node list ({}), head first:", title);
    for (addr, in_use, writers) in ds::nodes() {
        let name = names
            .iter()
            .find(|(a, _)| *a == addr)
            .map(|(_, n)| *n)
            .unwrap_or("?");
        println!(
            "    {:<4} {:#x}  {:<8} active_writers={}",
            name,
            addr,
            state_name(in_use),
            writers
        );
    }
}

fn state_of(node: usize) -> usize {
    ds::nodes().into_iter().find(|n| n.0 == node).unwrap().1
}

#[test]
fn writer_uses_released_node_after_nested_wrap() {
    if std::env::var_os("NESTED_WRAP_DEFAULT_STRATEGY").is_some() {
        println!("  strategy: DefaultStrategy, every thread holds 8 guards");
        scenario::<DefaultStrategy>(true);
    } else {
        println!("  strategy: FillFastSlots (internal test strategy: no fast slots)");
        scenario::<FillFastSlots>(false);
    }
}

fn scenario<S>(fill: bool)
where
    S: Strategy<Arc<String>> + Default + Send + Sync + 'static,
{
    *GATES.lock().unwrap() = Some(Gates::default());
    ds::set_hook(Some(hook));

    // Values. We keep one handle to each so we can watch the reference counts.
    let a0 = Arc::new(String::from("A0"));
    let a1 = Arc::new(String::from("A1"));
    let b0 = Arc::new(String::from("B0"));
    let b1 = Arc::new(String::from("B1"));

    // Two completely independent containers.
    let a: &'static Shared<S> = Box::leak(Box::new(Shared::new(Arc::clone(&a0))));
    let b: &'static Shared<S> = Box::leak(Box::new(Shared::new(Arc::clone(&b0))));

    // --- Step 1: W gets its node N_w (first node ever => tail of the list). Its generation
    // counter is preset so that its NEXT slow-path load wraps. This stands in for usize::MAX/4 - 1
    // slow-path loads done by this thread in the past.
    let (w_go_tx, w_go_rx) = std::sync::mpsc::channel::<()>();
    let (w_node_tx, w_node_rx) = std::sync::mpsc::channel::<usize>();
    let a1_for_w = Arc::clone(&a1);
    let w = thread::spawn(move || {
        ROLE.with(|r| r.set(Role::W));
        ds::preset_generation(0usize.wrapping_sub(4));
        w_node_tx.send(ds::current_node()).unwrap();
        let _guards = hold_guards(fill);
        w_go_rx.recv().unwrap();
        // A plain store. Nothing else.
        a.store(a1_for_w);
        // Which node do we own now?
        ds::current_node()
    });
    let n_w = w_node_rx.recv().unwrap();

    // --- Step 2: R1 starts a.load() and is paused in the middle of it.
    let (n1_tx, n1_rx) = std::sync::mpsc::channel::<usize>();
    let r1 = thread::spawn(move || {
        ROLE.with(|r| r.set(Role::R1));
        n1_tx.send(ds::current_node()).unwrap();
        let _guards = hold_guards(fill);
        let guard = a.load();
        String::clone(&guard)
        // guard dropped here
    });
    let n_1 = n1_rx.recv().unwrap();
    wait_arrived(Role::R1);

    // --- Step 3: R2 starts b.load() and is paused in the middle of it.
    let (n2_tx, n2_rx) = std::sync::mpsc::channel::<usize>();
    let r2 = thread::spawn(move || {
        ROLE.with(|r| r.set(Role::R2));
        n2_tx.send(ds::current_node()).unwrap();
        let _guards = hold_guards(fill);
        let guard = b.load();
        String::clone(&guard)
        // guard dropped here
    });
    let n_2 = n2_rx.recv().unwrap();
    wait_arrived(Role::R2);

    // --- Step 4: some short-lived thread X that used arc-swap and exited. Its node N_x is now the
    // head of the list and in COOLDOWN (nobody is looking into it).
    let n_x = thread::spawn(ds::current_node).join().unwrap();

    let names = [(n_w, "N_w"), (n_1, "N_1"), (n_2, "N_2"), (n_x, "N_x")];
    dump("before W stores", &names);
    assert_eq!(
        ds::nodes().iter().map(|n| n.0).collect::<Vec<_>>(),
        vec![n_x, n_2, n_1, n_w]
    );

    // --- Step 5: W does a.store(A1). Walking the list it finds R1 in the middle of a load from
    // `a`, calls replacement() = a nested a.load(), which wraps W's generation: N_w goes to
    // cooldown, W re-attaches to the first free node = N_x. W is paused right after that, still
    // inside the *outer* Slots::help(&N_w.helping, ..) frame.
    w_go_tx.send(()).unwrap();
    wait_arrived(Role::W);
    dump("W paused in help() after its nested load wrapped", &names);
    assert_eq!(state_of(n_x), 1, "W re-attached to N_x");
    assert_eq!(state_of(n_w), 2, "N_w was sent to cooldown by the nested load");

    // --- Step 6: a brand new thread T2. It claims N_w (the first node that is not in use) and
    // does a plain b.store(B1). It finds R2 in the middle of a load from `b` and helps it, using
    // N_w's envelope. Not paused anywhere; runs to completion.
    let b1_for_t2 = Arc::clone(&b1);
    let t2 = thread::spawn(move || {
        ROLE.with(|r| r.set(Role::T2));
        let node = ds::current_node();
        b.store(b1_for_t2);
        node
    });
    let n_t2 = t2.join().unwrap();
    println!(
        "  T2 ran on node {:#x} (N_w = {:#x}) and finished b.store(B1)",
        n_t2, n_w
    );
    // Not asserted: this is the bug's enabling step, not the failure itself. The verdict is made
    // from what the loads return and from the reference counts, at the end.
    if n_t2 == n_w {
        println!("  !!! T2 claimed N_w, the node whose envelope W is still using");
    } else {
        println!("  T2 did not get N_w (still reserved by W); nothing is shared");
    }

    // --- Step 7: W continues its a.store(A1).
    release(Role::W);
    let w_node_after = w.join().unwrap();
    println!(
        "  W finished a.store(A1); it now owns {:#x} (N_x = {:#x})",
        w_node_after, n_x
    );

    // --- Step 8: the readers finish.
    release(Role::R2);
    let r2_saw = r2.join().unwrap();
    release(Role::R1);
    let r1_saw = r1.join().unwrap();

    ds::set_hook(None);

    // Everything is quiescent now. `a` holds A1, `b` holds B1, no guards exist.
    let a_now = String::clone(&a.load());
    let b_now = String::clone(&b.load());
    println!("  R1: a.load() returned {:?}", r1_saw);
    println!("  R2: b.load() returned {:?}", r2_saw);
    println!("  now: a = {:?}, b = {:?}", a_now, b_now);
    println!(
        "  strong counts (ours + container expected = 2 for A1/B1, 1 for A0/B0): \
         A0={} A1={} B0={} B1={}",
        Arc::strong_count(&a0),
        Arc::strong_count(&a1),
        Arc::strong_count(&b0),
        Arc::strong_count(&b1)
    );

    assert_eq!(a_now, "A1");
    assert_eq!(b_now, "B1");
    assert!(
        r1_saw == "A0" || r1_saw == "A1",
        "a.load() returned {:?}, which was never stored in a",
        r1_saw
    );
    assert!(
        r2_saw == "B0" || r2_saw == "B1",
        "b.load() returned {:?}, which was never stored in b",
        r2_saw
    );
    assert_eq!(Arc::strong_count(&a0), 1);
    assert_eq!(Arc::strong_count(&b0), 1);
    assert_eq!(Arc::strong_count(&a1), 2, "A1: our handle + the one inside a");
    assert_eq!(Arc::strong_count(&b1), 2, "B1: our handle + the one inside b");
}
