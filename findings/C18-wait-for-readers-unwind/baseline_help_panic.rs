//! Side finding probe (NOT a mutant): on the unmodified library, a destructor panicking when the
//! helper drops its unused replacement inside `wait_for_readers` leaks the value `swap` just took
//! out of the storage.
use std::cell::RefCell;
use std::panic::{self, AssertUnwindSafe};
use std::sync::atomic::{AtomicUsize, Ordering};
use std::sync::mpsc::{channel, Receiver, Sender};
use std::sync::Arc;
use std::thread;
use std::time::Duration;

use arc_swap::ArcSwap;

struct Val {
    id: usize,
    bomb: bool,
    dropped: Arc<AtomicUsize>,
}

impl Drop for Val {
    fn drop(&mut self) {
        self.dropped.fetch_add(1, Ordering::SeqCst);
        if self.bomb {
            panic!("destructor of value {} panics", self.id);
        }
    }
}

fn val(id: usize, bomb: bool) -> (Arc<Val>, Arc<AtomicUsize>) {
    let dropped = Arc::new(AtomicUsize::new(0));
    let v = Arc::new(Val { id, bomb, dropped: Arc::clone(&dropped) });
    (v, dropped)
}

thread_local! {
    static PAUSE: RefCell<Option<(Sender<u32>, Receiver<()>, u32)>> = RefCell::new(None);
}

fn hook(point: u32) {
    PAUSE.with(|p| {
        if let Some((reached, go, want)) = p.borrow().as_ref() {
            if *want == point {
                reached.send(point).unwrap();
                go.recv().unwrap();
            }
        }
    });
}

const TIMEOUT: Duration = Duration::from_secs(20);

#[test]
fn swap_leaks_old_when_helper_replacement_drop_panics() {
    arc_swap::demo_support::set_hook(hook);
    let (x, x_dropped) = val(0, false);
    let (y, y_dropped) = val(1, true);
    let (z, _z_dropped) = val(2, false);
    let a = Arc::new(ArcSwap::from(x));
    let filler = Arc::new(ArcSwap::from_pointee(0usize));

    // Reader: stuck in the fallback with the generation published.
    let (r_reached_tx, r_reached_rx) = channel();
    let (r_go_tx, r_go_rx) = channel();
    let reader = thread::spawn({
        let a = Arc::clone(&a);
        let filler = Arc::clone(&filler);
        move || {
            let guards = (0..8).map(|_| filler.load()).collect::<Vec<_>>();
            PAUSE.with(|p| *p.borrow_mut() = Some((r_reached_tx, r_go_rx, 1)));
            let id = a.load().id;
            PAUSE.with(|p| *p.borrow_mut() = None);
            drop(guards);
            id
        }
    });
    assert_eq!(1, r_reached_rx.recv_timeout(TIMEOUT).unwrap());

    // Writer 1: swap(Y), stops while helping the reader with a loaded replacement (= Y).
    let (w_reached_tx, w_reached_rx) = channel();
    let (w_go_tx, w_go_rx) = channel();
    let writer = thread::spawn({
        let a = Arc::clone(&a);
        move || {
            PAUSE.with(|p| *p.borrow_mut() = Some((w_reached_tx, w_go_rx, 3)));
            let r = panic::catch_unwind(AssertUnwindSafe(|| a.swap(y).id));
            PAUSE.with(|p| *p.borrow_mut() = None);
            r
        }
    });
    assert_eq!(3, w_reached_rx.recv_timeout(TIMEOUT).unwrap());

    // Main: replace Y by Z (helps the reader first), drop Y. Only writer 1's replacement holds Y.
    drop(a.swap(z));
    assert_eq!(0, y_dropped.load(Ordering::SeqCst));
    w_go_tx.send(()).unwrap();
    let w = writer.join().unwrap();
    r_go_tx.send(()).unwrap();
    assert_eq!(2, reader.join().unwrap());

    assert!(w.is_err(), "swap was supposed to panic");
    assert_eq!(1, y_dropped.load(Ordering::SeqCst));
    drop(Arc::try_unwrap(a).ok().unwrap());
    // X was taken out of the storage by writer 1's swap; nobody else holds it.
    assert_eq!(1, x_dropped.load(Ordering::SeqCst), "X (the value replaced by the panicking swap) leaked");
}
