//! C15: the raw round trip does not preserve identity for nestings accepted by the trait whose
//! inner kind has an empty value of its own: `Option<Option<Arc<T>>>` and (weak feature)
//! `Option<Weak<T>>`. `Some(<inner empty>)` and `None` both become the null pointer and null
//! always comes back as `None`.
//!
//! cargo test --offline --features weak --test nested_empty_collapse

use std::sync::Arc;
#[cfg(feature = "weak")]
use std::sync::Weak;

use arc_swap::{ArcSwapAny, RefCnt};

type OO = Option<Option<Arc<String>>>;

#[test]
fn trait_level_some_none() {
    let v: OO = Some(None);
    assert!(v.is_some());
    let raw = <OO as RefCnt>::into_ptr(v);
    let back = unsafe { <OO as RefCnt>::from_ptr(raw) };
    assert_eq!(Some(None), back, "Some(None) -> raw -> back is a different value");
}

#[test]
fn container_level_some_none() {
    let s = ArcSwapAny::<OO>::new(Some(None));
    // What was stored is not what is loaded.
    assert_eq!(Some(None), *s.load(), "load() of a container built from Some(None)");
}

#[test]
fn container_level_some_none_swap_and_cas() {
    let s = ArcSwapAny::<OO>::new(Some(Some(Arc::new("x".to_owned()))));
    s.store(Some(None));
    // swap returns the previous value: must be the Some(None) stored one line above
    let prev = s.swap(None);
    assert_eq!(Some(None), prev, "swap() returned a value that was never stored");
}

#[test]
fn container_level_cas_confuses_the_two_empties() {
    let s = ArcSwapAny::<OO>::new(Some(None));
    // The container was given Some(None); a CAS expecting None must not succeed.
    let marker = Arc::new("new".to_owned());
    let _prev = s.compare_and_swap(&None::<Option<Arc<String>>>, Some(Some(Arc::clone(&marker))));
    assert_eq!(
        1,
        Arc::strong_count(&marker),
        "CAS with current = None succeeded on a container holding Some(None)"
    );
}

#[cfg(feature = "weak")]
mod weak {
    use super::*;

    type OW = Option<Weak<String>>;

    #[test]
    fn trait_level_some_dangling() {
        let v: OW = Some(Weak::new());
        let raw = <OW as RefCnt>::into_ptr(v);
        let back = unsafe { <OW as RefCnt>::from_ptr(raw) };
        assert!(back.is_some(), "Some(Weak::new()) -> raw -> back is None");
    }

    #[test]
    fn container_level_some_dangling() {
        let s = ArcSwapAny::<OW>::new(None);
        s.store(Some(Weak::new()));
        assert!(s.load().is_some(), "stored Some(Weak::new()), loaded None");
    }

    #[test]
    fn container_level_some_dangling_into_inner() {
        let s = ArcSwapAny::<OW>::new(Some(Weak::new()));
        assert!(s.into_inner().is_some(), "into_inner() of new(Some(Weak::new())) is None");
    }
}
