//! Same defect for the Rc family (clean tree, no patch, `--features weak`): goes to tests/side_weak_rc.rs.
#![cfg(feature = "weak")]
use std::rc::{Rc, Weak};
use arc_swap::ArcSwapAny;

#[test]
fn strong_and_weak_rc_containers_of_same_allocation() {
    let data = Rc::new(5usize);
    let strong: ArcSwapAny<Rc<usize>> = ArcSwapAny::new(Rc::clone(&data));
    let weak: ArcSwapAny<Weak<usize>> = ArcSwapAny::new(Rc::downgrade(&data));
    assert_eq!((2, 1), (Rc::strong_count(&data), Rc::weak_count(&data)));
    let g = strong.load();
    weak.store(Weak::new());
    drop(g);
    println!("after: strong={} weak={}", Rc::strong_count(&data), Rc::weak_count(&data));
    assert_eq!((2, 0), (Rc::strong_count(&data), Rc::weak_count(&data)));
}
