//! H3 / C02: a debt left in the *helping* slot on a stale address is paid by a writer of another
//! container whose (new) value happens to live on the recycled address; the reader then gives
//! that count back with `T::dec(candidate)` in `HybridProtection::fallback`'s `Err` arm ‒ using
//! *its own* type.
//!
//! Same root cause as the already known "debts are keyed by the bare address" problem, but a
//! different arm (fallback/helping slot instead of `attempt`) and a different effect: the reader
//! never sees the foreign value, it *destroys* it (with the wrong destructor if the types differ),
//! and until it does, the foreign value outlives its last owner.
//!
//! Needs the demo-support pause points (no-ops unless armed by the test thread).

use std::sync::atomic::{AtomicUsize, Ordering::SeqCst};
use std::sync::{Arc, Mutex};
use std::thread;
use std::time::{Duration, Instant};

use arc_swap::demo_support as demo;
use arc_swap::ArcSwap;

// The pause points are process-global; run the scenarios one after another.
static SERIAL: Mutex<()> = Mutex::new(());

static DROPS_A: AtomicUsize = AtomicUsize::new(0);
static DROPS_B: AtomicUsize = AtomicUsize::new(0);

// Two different types with the same size and alignment (so the allocator recycles the block).
struct TypeA(#[allow(dead_code)] [usize; 4]);
struct TypeB(#[allow(dead_code)] [usize; 4]);

impl Drop for TypeA {
    fn drop(&mut self) {
        DROPS_A.fetch_add(1, SeqCst);
    }
}
impl Drop for TypeB {
    fn drop(&mut self) {
        DROPS_B.fetch_add(1, SeqCst);
    }
}

fn wait_for(what: &str, mut cond: impl FnMut() -> bool) {
    let start = Instant::now();
    while !cond() {
        assert!(
            start.elapsed() < Duration::from_secs(20),
            "timed out waiting for {}",
            what
        );
        thread::yield_now();
    }
}

/// Allocate Arcs of `T` until one lands on `addr` (the block that was just freed by this very
/// thread). With the usual allocators the first one does.
fn alloc_at<T>(addr: usize, mut mk: impl FnMut() -> T) -> Arc<T> {
    let mut parked = Vec::new();
    for _ in 0..10_000 {
        let a = Arc::new(mk());
        if Arc::as_ptr(&a) as usize == addr {
            return a;
        }
        parked.push(a);
    }
    panic!("INCONCLUSIVE: the allocator did not recycle the address");
}

#[test]
fn foreign_value_destroyed_by_reader_with_wrong_type() {
    let _serial = SERIAL.lock().unwrap_or_else(|e| e.into_inner());
    let base_reached_0 = demo::reached(demo::FALLBACK_AFTER_CANDIDATE);
    let base_reached_1 = demo::reached(demo::CONFIRM_AFTER_SLOT);
    let drops_a0 = DROPS_A.load(SeqCst);
    let drops_b0 = DROPS_B.load(SeqCst);

    let a: Arc<ArcSwap<TypeA>> = Arc::new(ArcSwap::from_pointee(TypeA([1; 4])));

    // The reader: all 8 fast slots are taken by guards of an unrelated container, so the load
    // of `a` goes through the fallback (helping) path.
    let reader = {
        let a = Arc::clone(&a);
        thread::spawn(move || {
            let filler = ArcSwap::from_pointee(0usize);
            let _guards: Vec<_> = (0..8).map(|_| filler.load()).collect();
            demo::arm(demo::FALLBACK_AFTER_CANDIDATE);
            demo::arm(demo::CONFIRM_AFTER_SLOT);
            let g = a.load();
            // What the reader got is the replacement (the new value of `a`), nothing foreign.
            assert_eq!(g.0, [2; 4]);
            drop(g);
        })
    };

    // 1. The reader has published its generation and loaded the candidate X (the first value).
    wait_for("reader in fallback", || {
        demo::reached(demo::FALLBACK_AFTER_CANDIDATE) > base_reached_0
    });

    // 2. Replace X. This writer helps the reader (hands over the new value), finds no debt on X
    //    (the helping slot is still empty) and gives X back; we are its only owner -> destroyed.
    let x = a.swap(Arc::new(TypeA([2; 4])));
    let addr = Arc::as_ptr(&x) as usize;
    assert_eq!(1, Arc::strong_count(&x));
    drop(x);
    assert_eq!(drops_a0 + 1, DROPS_A.load(SeqCst), "X is gone");

    // 3. An unrelated value of an unrelated type in an unrelated container gets the recycled
    //    block.
    let foreign: Arc<TypeB> = alloc_at(addr, || TypeB([7; 4]));
    let b: ArcSwap<TypeB> = ArcSwap::new(foreign);

    // 4. The reader goes on and writes the (stale) candidate address into its helping slot.
    demo::release(demo::FALLBACK_AFTER_CANDIDATE);
    wait_for("reader wrote the helping slot", || {
        demo::reached(demo::CONFIRM_AFTER_SLOT) > base_reached_1
    });

    // 5. The foreign value is replaced in *its* container. The reader never touched `b`.
    let foreign = b.swap(Arc::new(TypeB([8; 4])));
    let strong_after_swap = Arc::strong_count(&foreign);
    // We are the only user-visible owner now. Dropping it must destroy it, right now.
    drop(foreign);
    let drops_b_after_last_owner = DROPS_B.load(SeqCst) - drops_b0;

    // 6. Let the reader finish: it was handed the replacement, so it "returns" its unused debt,
    //    finds it paid and does T::dec(candidate) - with T = Arc<TypeA> on a TypeB.
    demo::release(demo::CONFIRM_AFTER_SLOT);
    reader.join().unwrap();

    let drops_a = DROPS_A.load(SeqCst) - drops_a0;
    let drops_b = DROPS_B.load(SeqCst) - drops_b0;
    drop(b);
    drop(a);

    eprintln!(
        "strong count of the foreign value when its last owner held it: {} (expected 1)",
        strong_after_swap
    );
    eprintln!(
        "TypeB destructors run when the last owner was dropped: {} (expected 1)",
        drops_b_after_last_owner
    );
    eprintln!(
        "after the reader finished: TypeA destructors {} (expected 1), TypeB destructors {} (expected 1)",
        drops_a, drops_b
    );
    assert_eq!(1, strong_after_swap, "a phantom count on a value the reader never loaded");
    assert_eq!(1, drops_b_after_last_owner, "reclamation is not tight");
    assert_eq!((1, 1), (drops_a, drops_b), "destroyed through the wrong type");
}

/// The same schedule with one type only: no type confusion, but the value stored only in `b`
/// gets a count from a reader of `a` and outlives its last owner.
#[test]
fn foreign_value_outlives_last_owner() {
    let _serial = SERIAL.lock().unwrap_or_else(|e| e.into_inner());
    let base_reached_0 = demo::reached(demo::FALLBACK_AFTER_CANDIDATE);
    let base_reached_1 = demo::reached(demo::CONFIRM_AFTER_SLOT);

    static DROPS: AtomicUsize = AtomicUsize::new(0);
    struct Val(#[allow(dead_code)] [usize; 6]);
    impl Drop for Val {
        fn drop(&mut self) {
            DROPS.fetch_add(1, SeqCst);
        }
    }

    let a: Arc<ArcSwap<Val>> = Arc::new(ArcSwap::from_pointee(Val([1; 6])));
    let reader = {
        let a = Arc::clone(&a);
        thread::spawn(move || {
            let filler = ArcSwap::from_pointee(0usize);
            let _guards: Vec<_> = (0..8).map(|_| filler.load()).collect();
            demo::arm(demo::FALLBACK_AFTER_CANDIDATE);
            demo::arm(demo::CONFIRM_AFTER_SLOT);
            drop(a.load());
        })
    };
    wait_for("reader in fallback", || {
        demo::reached(demo::FALLBACK_AFTER_CANDIDATE) > base_reached_0
    });
    let x = a.swap(Arc::new(Val([2; 6])));
    let addr = Arc::as_ptr(&x) as usize;
    drop(x);
    assert_eq!(1, DROPS.load(SeqCst));
    let b: ArcSwap<Val> = ArcSwap::new(alloc_at(addr, || Val([7; 6])));
    demo::release(demo::FALLBACK_AFTER_CANDIDATE);
    wait_for("reader wrote the helping slot", || {
        demo::reached(demo::CONFIRM_AFTER_SLOT) > base_reached_1
    });
    let foreign = b.swap(Arc::new(Val([8; 6])));
    let strong = Arc::strong_count(&foreign);
    drop(foreign);
    let destroyed = DROPS.load(SeqCst) - 1;
    demo::release(demo::CONFIRM_AFTER_SLOT);
    reader.join().unwrap();
    eprintln!(
        "strong count seen by the only owner: {} (expected 1); destroyed at its drop: {} (expected 1)",
        strong, destroyed
    );
    assert_eq!(1, strong);
    assert_eq!(1, destroyed);
}
