//! Side finding (clean tree): pointer-keyed debts + address reuse let a reader of A return B's value.
use std::cell::Cell;
use std::sync::mpsc::{channel, Receiver, Sender};
use std::sync::{Arc, Mutex};
use std::thread;

use arc_swap::ArcSwap;

thread_local! {
    static CTL: Cell<bool> = Cell::new(false);
}
static CHAN: Mutex<Option<(Sender<&'static str>, Receiver<()>)>> = Mutex::new(None);

fn hook(point: &'static str, _arg: usize) {
    if CTL.with(|c| c.get()) && point.starts_with("attempt:") {
        let g = CHAN.lock().unwrap();
        let (tx, rx) = g.as_ref().unwrap();
        tx.send(point).unwrap();
        rx.recv().unwrap();
    }
}

#[test]
fn reader_of_a_gets_b() {
    arc_swap::__demo::set_hook(hook);
    let a: &'static ArcSwap<usize> = Box::leak(Box::new(ArcSwap::from_pointee(0xA0)));
    let (ev_tx, ev_rx) = channel();
    let (res_tx, res_rx) = channel();
    *CHAN.lock().unwrap() = Some((ev_tx, res_rx));

    let reader = thread::spawn(move || {
        CTL.with(|c| c.set(true));
        let g = a.load();
        CTL.with(|c| c.set(false));
        **g
    });

    assert_eq!("attempt:after-load", ev_rx.recv().unwrap());
    // The reader has read the pointer to 0xA0, no protection yet. Replace and free it.
    let old_addr = Arc::as_ptr(&a.load_full()) as usize;
    a.store(Arc::new(0xA1));
    // Allocate values for B until the allocator hands the address out again.
    let mut keep = Vec::new();
    let b_val = loop {
        let v = Arc::new(0xB0usize);
        if Arc::as_ptr(&v) as usize == old_addr {
            break v;
        }
        keep.push(v);
        assert!(keep.len() < 10_000, "allocator did not reuse the address");
    };
    let b = ArcSwap::new(b_val);
    // Let the reader publish its (stale) debt.
    res_tx.send(()).unwrap();
    assert_eq!("attempt:after-debt", ev_rx.recv().unwrap());
    // A writer to the unrelated container B removes the value: it pays the reader's debt.
    b.store(Arc::new(0xB1));
    res_tx.send(()).unwrap();
    let got = reader.join().unwrap();
    assert!(got == 0xA0 || got == 0xA1, "load of A returned {:#x}, only ever stored in B", got);
}
