//! Side finding (clean tree, no patch at all, `--features weak`): a strong and a weak container of
//! the same allocation share the data pointer, so the writer to the weak container pays a strong
//! borrow with a *weak* count. Goes to tests/side_weak.rs; run with
//! `cargo test --offline --features weak --test side_weak -- --nocapture`.
#![cfg(feature = "weak")]
use std::sync::{Arc, Weak};
use arc_swap::{ArcSwap, ArcSwapWeak};

#[test]
fn strong_and_weak_containers_of_same_allocation() {
    let data = Arc::new(5usize);
    let strong = ArcSwap::new(Arc::clone(&data));
    let weak = ArcSwapWeak::new(Arc::downgrade(&data));
    assert_eq!((2, 1), (Arc::strong_count(&data), Arc::weak_count(&data)));
    let g = strong.load(); // debt on the data pointer in a fast slot
    weak.store(Weak::new()); // writer to the *other* container
    println!("after weak.store: strong={} weak={}", Arc::strong_count(&data), Arc::weak_count(&data));
    drop(g);
    println!("after drop(guard): strong={} weak={}", Arc::strong_count(&data), Arc::weak_count(&data));
    // Observed on the clean tree: (1, 1) - one strong count lost (data + container = 2 owners),
    // one weak count leaked.
    assert_eq!((2, 0), (Arc::strong_count(&data), Arc::weak_count(&data)));
}
