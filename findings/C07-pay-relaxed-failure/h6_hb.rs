//! H6 / C17: is a (projection) guard's read ordered before the destruction of its snapshot, when
//! the guard gave its debt back on its own and somebody else destroys the value?
//!
//! All the test-side coordination is done with Relaxed flags on purpose, so the only
//! happens-before edges are the ones the library itself provides.

use std::sync::atomic::{AtomicBool, Ordering::Relaxed};
use std::sync::Arc;
use std::thread;

use arc_swap::access::{Access, Map};
use arc_swap::ArcSwap;

struct Inner {
    value: usize,
}

struct Cfg {
    inner: Inner,
}

fn wait(f: &AtomicBool) {
    while !f.load(Relaxed) {
        thread::yield_now();
    }
}

fn run(projected: bool) {
    let shared = Arc::new(ArcSwap::from_pointee(Cfg {
        inner: Inner { value: 1 },
    }));
    let owner_ready = Arc::new(AtomicBool::new(false));
    let reader_done = Arc::new(AtomicBool::new(false));
    let stored = Arc::new(AtomicBool::new(false));
    let destroyed = Arc::new(AtomicBool::new(false));

    // Holds a full reference to the first value; will be the one destroying it.
    let owner = {
        let (shared, owner_ready, stored, destroyed) = (
            Arc::clone(&shared),
            Arc::clone(&owner_ready),
            Arc::clone(&stored),
            Arc::clone(&destroyed),
        );
        thread::spawn(move || {
            let own = shared.load_full();
            owner_ready.store(true, Relaxed);
            wait(&stored);
            drop(own); // the last reference -> runs the destructor / frees
            destroyed.store(true, Relaxed);
        })
    };

    // Reads through a guard backed by a debt slot and gives the slot back before the store.
    let reader = {
        let (shared, reader_done, destroyed) = (
            Arc::clone(&shared),
            Arc::clone(&reader_done),
            Arc::clone(&destroyed),
        );
        thread::spawn(move || {
            let v = if projected {
                let map = Map::new(
                    Map::new(Arc::clone(&shared), |c: &Cfg| &c.inner),
                    |i: &Inner| &i.value,
                );
                let g = Access::load(&map);
                *g
            } else {
                let g = ArcSwap::load(&shared);
                g.inner.value
            };
            assert_eq!(1, v);
            reader_done.store(true, Relaxed);
            // Stay alive: the thread exit would release the debt node (a synchronization of its
            // own) before the writer walks it.
            wait(&destroyed);
        })
    };

    let writer = {
        let (shared, owner_ready, reader_done, stored) = (
            Arc::clone(&shared),
            Arc::clone(&owner_ready),
            Arc::clone(&reader_done),
            Arc::clone(&stored),
        );
        thread::spawn(move || {
            wait(&owner_ready);
            wait(&reader_done);
            shared.store(Arc::new(Cfg {
                inner: Inner { value: 2 },
            }));
            stored.store(true, Relaxed);
        })
    };

    owner.join().unwrap();
    reader.join().unwrap();
    writer.join().unwrap();
}

#[test]
fn projected_guard_read_happens_before_destruction() {
    run(true);
}

#[test]
fn plain_guard_read_happens_before_destruction() {
    run(false);
}
