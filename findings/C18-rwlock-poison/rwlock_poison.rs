#![cfg(feature = "internal-test-strategies")]
//! C18 (and C13) on the lock based reference strategy `RwLock<()>`: a pointee destructor that panics inside a
//! refused compare_and_swap runs while the write lock is held, poisons it, and every later `load`
//! (`.expect("We don't panic in here")`) and `wait_for_readers` (store / swap / drop of the container) panics.
//! Goes to tests/rwlock_poison.rs; run with
//!   cargo test --offline --features internal-test-strategies --test rwlock_poison
//! Unfixed tree (49e75bd): "load after the caught panic: left None, right Some(1)" and then the drop of the container
//! panics while panicking (abort). With the fix: ok.
use std::panic::{catch_unwind, AssertUnwindSafe};
use std::sync::atomic::{AtomicBool, Ordering};
use std::sync::{Arc, RwLock};

use arc_swap::ArcSwapAny;

static ARMED: AtomicBool = AtomicBool::new(false);
struct D(usize);
impl Drop for D {
    fn drop(&mut self) {
        if self.0 == 99 && ARMED.swap(false, Ordering::SeqCst) {
            panic!("pointee destructor panics");
        }
    }
}

#[test]
fn refused_cas_with_panicking_destructor_keeps_container_usable() {
    let a = Arc::new(D(1));
    let other = Arc::new(D(2));
    let shared: ArcSwapAny<Arc<D>, RwLock<()>> = ArcSwapAny::with_strategy(Arc::clone(&a), RwLock::new(()));
    ARMED.store(true, Ordering::SeqCst);
    // `current` does not match -> the exchange is refused and the rejected `new` (last handle) is destroyed inside
    let r = catch_unwind(AssertUnwindSafe(|| {
        shared.compare_and_swap(&other, Arc::new(D(99)));
    }));
    assert!(r.is_err(), "the destructor was supposed to panic");
    // subsequent operations behave normally
    let after = catch_unwind(AssertUnwindSafe(|| shared.load().0));
    assert_eq!(after.ok(), Some(1), "load after the caught panic");
    let st = catch_unwind(AssertUnwindSafe(|| shared.store(Arc::new(D(3)))));
    assert!(st.is_ok(), "store after the caught panic");
    assert_eq!(Arc::strong_count(&a), 1);
}
