//! C18: a destructor that panics while a function is returning leaks the value already moved into the return slot.
use std::panic::{catch_unwind, AssertUnwindSafe};
use std::sync::atomic::{AtomicBool, Ordering};
use std::sync::Arc;

use arc_swap::ArcSwap;

static ARMED: AtomicBool = AtomicBool::new(false);
struct D(usize);
impl Drop for D {
    fn drop(&mut self) {
        if self.0 == 99 && ARMED.swap(false, Ordering::SeqCst) {
            panic!("pointee destructor panics");
        }
    }
}

/// How many of 8 simultaneous guards had to take a full reference (= fast slots that are not available).
fn slots_missing(s: &ArcSwap<D>) -> usize {
    let before = Arc::strong_count(&s.load_full()) - 1; // minus the temporary
    let guards: Vec<_> = (0..8).map(|_| s.load()).collect();
    let v = s.load_full();
    let during = Arc::strong_count(&v) - 1;
    drop(guards);
    during - before
}

#[test]
fn refused_cas_with_panicking_new_keeps_slots_free() {
    let stored = Arc::new(D(1));
    let s = ArcSwap::new(Arc::clone(&stored));
    let other = Arc::new(D(2));
    assert_eq!(0, slots_missing(&s));
    ARMED.store(true, Ordering::SeqCst);
    // refused exchange; the rejected `new` (last handle, destructor panics) is dropped while the reply is being returned
    let r = catch_unwind(AssertUnwindSafe(|| {
        s.compare_and_swap(&other, Arc::new(D(99)));
    }));
    assert!(r.is_err());
    assert_eq!(0, slots_missing(&s), "a borrow slot stays occupied after the unwinding");
    s.store(Arc::new(D(3)));
    assert_eq!(1, Arc::strong_count(&stored), "the count of the value that was stored is exact after it was replaced");
}

struct PanicsOnDrop;
impl Drop for PanicsOnDrop {
    fn drop(&mut self) {
        if ARMED.swap(false, Ordering::SeqCst) {
            panic!("closure state destructor panics");
        }
    }
}

#[test]
fn rcu_with_closure_whose_state_panics_on_drop() {
    let first = Arc::new(D(1));
    let s = ArcSwap::new(Arc::clone(&first));
    let state = PanicsOnDrop;
    ARMED.store(true, Ordering::SeqCst);
    let r = catch_unwind(AssertUnwindSafe(|| {
        s.rcu(move |_| {
            let _keep = &state;
            Arc::new(D(5))
        });
    }));
    assert!(r.is_err());
    // the replaced value: we hold one handle, nobody else should
    assert_eq!(1, Arc::strong_count(&first), "the value rcu replaced was leaked in the return slot");
}
