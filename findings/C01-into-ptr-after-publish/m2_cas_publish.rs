//! compare_and_swap touches its owned `new` (T::into_ptr(new), src/strategy/hybrid.rs:233) *after*
//! the successful compare_exchange has published the pointer. From that moment the reference
//! belongs to the storage and any other thread may take it out and release it.
use std::sync::Arc;
use std::thread;

use arc_swap::ArcSwap;

#[test]
fn cas_publish() {
    const N: usize = 300;
    let shared = Arc::new(ArcSwap::from_pointee(0usize));
    let a = {
        let shared = Arc::clone(&shared);
        thread::spawn(move || {
            for _ in 0..N {
                let cur = shared.load_full();
                let new = Arc::new(*cur + 1);
                shared.compare_and_swap(&cur, new);
            }
        })
    };
    let b = {
        let shared = Arc::clone(&shared);
        thread::spawn(move || {
            for i in 0..N {
                // swap the value out and drop it: if it is the one the other thread has just
                // put in, this was its only reference
                shared.store(Arc::new(1000 + i));
            }
        })
    };
    a.join().unwrap();
    b.join().unwrap();
}
