//! The same pattern in the hand-over of the helping strategy: Slots::help gives its fully owned
//! `replacement` to the reader by the compare_exchange on the reader's control
//! (src/debt/helping.rs:283-285) and only then forgets it with T::into_ptr(replacement)
//! (src/debt/helping.rs:292). Between the two the reference already belongs to the reader. If the
//! reader drops it and another writer has replaced the value in the storage and released it in
//! the meantime, the helper's Arc points to freed memory when it gets to Arc::into_raw.
use std::sync::Arc;
use std::thread;

use arc_swap::ArcSwap;

#[test]
fn handover_publish() {
    const LOADS: usize = 400;
    const WRITERS: usize = 3;
    const STORES: usize = 130;
    let other = Arc::new(ArcSwap::from_pointee(0usize));
    let shared = Arc::new(ArcSwap::from_pointee(0usize));
    let mut hs = Vec::new();
    {
        let other = Arc::clone(&other);
        let shared = Arc::clone(&shared);
        hs.push(thread::spawn(move || {
            // all 8 fast slots taken => every load below uses the helping fallback
            let _guards: Vec<_> = (0..8).map(|_| other.load()).collect();
            for _ in 0..LOADS {
                drop(shared.load());
            }
        }));
    }
    for w in 0..WRITERS {
        let shared = Arc::clone(&shared);
        hs.push(thread::spawn(move || {
            for i in 0..STORES {
                shared.store(Arc::new(w * 1000 + i));
            }
        }));
    }
    for h in hs {
        h.join().unwrap();
    }
}
