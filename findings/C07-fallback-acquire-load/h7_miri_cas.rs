//! compare_and_swap only, default strategy, public API only. To be run under miri (with its
//! default weak memory emulation) over a range of seeds.
//!
//! Every thread holds 8 guards (the documented per-thread number of cheap guards), so the load
//! inside compare_and_swap has to take the "helping" fallback path ‒ as it would under contention
//! too.

use std::ptr;
use std::sync::Arc;

use arc_swap::ArcSwap;

const THREADS: usize = 3;
const ITERS: usize = 3;

#[test]
fn cas_only() {
    let filler = ArcSwap::from_pointee(0usize);
    let shared = ArcSwap::from_pointee(0usize);
    std::thread::scope(|s| {
        for _ in 0..THREADS {
            s.spawn(|| {
                // Occupy the fast slots of this thread.
                let _held: Vec<_> = (0..8).map(|_| filler.load()).collect();
                for _ in 0..ITERS {
                    // A compare_and_swap that can't succeed "acts like load_full" (docs).
                    let mut cur = shared.compare_and_swap(ptr::null::<usize>(), Arc::new(0));
                    loop {
                        let next = Arc::new(**cur + 1);
                        let prev = shared.compare_and_swap(&cur, next);
                        if Arc::ptr_eq(&prev, &cur) {
                            break;
                        }
                        cur = prev;
                    }
                }
            });
        }
    });
    let last = shared.compare_and_swap(ptr::null::<usize>(), Arc::new(0));
    assert_eq!(**last, THREADS * ITERS);
}
