//! Sequential thread churn while writers continuously walk the node list. How many nodes?

use std::alloc::{GlobalAlloc, Layout, System};
use std::sync::atomic::{AtomicBool, AtomicUsize, Ordering::SeqCst};
use std::sync::Arc;
use std::thread;

use arc_swap::ArcSwap;

struct Counting;
static ALIGNED_64: AtomicUsize = AtomicUsize::new(0);
unsafe impl GlobalAlloc for Counting {
    unsafe fn alloc(&self, l: Layout) -> *mut u8 {
        if l.align() == 64 {
            ALIGNED_64.fetch_add(1, SeqCst);
        }
        System.alloc(l)
    }
    unsafe fn dealloc(&self, p: *mut u8, l: Layout) {
        System.dealloc(p, l)
    }
}
#[global_allocator]
static A: Counting = Counting;

#[test]
fn churn_under_writers() {
    let writers_n: usize = std::env::var("WRITERS").ok().and_then(|v| v.parse().ok()).unwrap_or(4);
    let threads_n: usize = std::env::var("THREADS").ok().and_then(|v| v.parse().ok()).unwrap_or(5000);
    let shared = Arc::new(ArcSwap::from_pointee(0usize));
    let stop = Arc::new(AtomicBool::new(false));
    let before = ALIGNED_64.load(SeqCst);
    let writers = (0..writers_n)
        .map(|_| {
            let shared = Arc::clone(&shared);
            let stop = Arc::clone(&stop);
            thread::spawn(move || {
                let v = Arc::new(1usize);
                while !stop.load(SeqCst) {
                    shared.store(Arc::clone(&v));
                }
            })
        })
        .collect::<Vec<_>>();
    for _ in 0..threads_n {
        let shared = Arc::clone(&shared);
        thread::spawn(move || {
            let _ = **shared.load();
        })
        .join()
        .unwrap();
    }
    stop.store(true, SeqCst);
    for w in writers {
        w.join().unwrap();
    }
    let nodes = ALIGNED_64.load(SeqCst) - before;
    let peak = writers_n + 1; // the churn thread; main has no node
    println!("writers {} threads {} -> nodes {} (peak node-owning threads alive {})", writers_n, threads_n, nodes, peak);
    assert!(nodes <= peak, "nodes {} > peak alive {}", nodes, peak);
}
