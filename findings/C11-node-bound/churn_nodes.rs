//! Thread churn must reuse debt nodes: the number of nodes ever allocated is bounded by the peak
//! number of threads alive at once, not by the number of threads ever created.
//!
//! The node list is private; nodes are the only allocations of the crate with 64-byte alignment
//! (`#[repr(C, align(64))] struct Node`), so a counting global allocator sees them.

use std::alloc::{GlobalAlloc, Layout, System};
use std::sync::atomic::{AtomicUsize, Ordering::SeqCst};
use std::sync::Arc;
use std::thread;

use arc_swap::ArcSwap;

struct Counting;

static ALIGNED_64: AtomicUsize = AtomicUsize::new(0);

unsafe impl GlobalAlloc for Counting {
    unsafe fn alloc(&self, l: Layout) -> *mut u8 {
        if l.align() == 64 {
            ALIGNED_64.fetch_add(1, SeqCst);
        }
        System.alloc(l)
    }
    unsafe fn dealloc(&self, p: *mut u8, l: Layout) {
        System.dealloc(p, l)
    }
}

#[global_allocator]
static A: Counting = Counting;

#[test]
fn sequential_threads_reuse_one_node() {
    let shared = Arc::new(ArcSwap::from_pointee(42usize));
    // Main thread gets its node.
    assert_eq!(42, **shared.load());
    let before = ALIGNED_64.load(SeqCst);
    const THREADS: usize = 500;
    for _ in 0..THREADS {
        let shared = Arc::clone(&shared);
        // One thread alive at a time besides main: peak == 2.
        thread::spawn(move || {
            assert_eq!(42, **shared.load());
        })
        .join()
        .unwrap();
    }
    let nodes = ALIGNED_64.load(SeqCst) - before;
    println!("nodes allocated for {} sequential threads: {}", THREADS, nodes);
    assert!(
        nodes <= 2,
        "{} debt nodes allocated for {} sequential short-lived threads (peak 2 alive)",
        nodes,
        THREADS
    );
}
