//! One writer, one short-lived reader thread at a time (peak 3 threads alive including main).
//! Schedule: whenever the new thread examines a cooled-down node, the writer happens to be
//! registered on that node (both walk the list head to tail). The new thread never gets an old
//! node and allocates a fresh one -> one node per thread ever created.
//!
//! Needs the demo-support pause points (no-ops unless a hook is installed).

use std::alloc::{GlobalAlloc, Layout, System};
use std::sync::atomic::{AtomicBool, AtomicUsize, Ordering::SeqCst};
use std::sync::Arc;
use std::thread;
use std::time::{Duration, Instant};

use arc_swap::{demo_support, ArcSwap};

struct Counting;
static ALIGNED_64: AtomicUsize = AtomicUsize::new(0);
unsafe impl GlobalAlloc for Counting {
    unsafe fn alloc(&self, l: Layout) -> *mut u8 {
        if l.align() == 64 {
            ALIGNED_64.fetch_add(1, SeqCst);
        }
        System.alloc(l)
    }
    unsafe fn dealloc(&self, p: *mut u8, l: Layout) {
        System.dealloc(p, l)
    }
}
#[global_allocator]
static A: Counting = Counting;

fn spin<F: Fn() -> bool>(f: F, what: &str) {
    let deadline = Instant::now() + Duration::from_secs(20);
    while !f() {
        assert!(Instant::now() < deadline, "timeout: {}", what);
        thread::yield_now();
    }
}

/// How many nodes the writer has registered on in the current walk.
static W_POS: AtomicUsize = AtomicUsize::new(0);
/// The writer may leave the nodes with index below this.
static W_ALLOWED: AtomicUsize = AtomicUsize::new(usize::MAX);
/// Index of the node the new thread is about to examine.
static T_POS: AtomicUsize = AtomicUsize::new(0);

fn hook(point: &'static str) {
    let current = thread::current();
    match (current.name(), point) {
        (Some("W"), "pay_all:node-reserved") => {
            let pos = W_POS.fetch_add(1, SeqCst) + 1;
            spin(|| W_ALLOWED.load(SeqCst) >= pos, "W waits on a node");
        }
        (Some("T"), "check_cooldown:enter") => {
            let i = T_POS.fetch_add(1, SeqCst);
            // Let the writer proceed up to the node we are about to look at and stay there.
            W_ALLOWED.store(i, SeqCst);
            spin(|| W_POS.load(SeqCst) == i + 1, "T waits for W to arrive");
        }
        _ => (),
    }
}

fn spawn<R: Send + 'static, F: FnOnce() -> R + Send + 'static>(
    name: &str,
    f: F,
) -> thread::JoinHandle<R> {
    thread::Builder::new().name(name.to_owned()).spawn(f).unwrap()
}

#[test]
fn one_node_per_thread_ever_created() {
    const ROUNDS: usize = 40;
    let shared = Arc::new(ArcSwap::from_pointee(0usize));
    let before = ALIGNED_64.load(SeqCst);

    let w_round = Arc::new(AtomicUsize::new(0));
    let w_done = Arc::new(AtomicUsize::new(0));
    let w_stop = Arc::new(AtomicBool::new(false));
    let w = spawn("W", {
        let shared = Arc::clone(&shared);
        let (w_round, w_done, w_stop) =
            (Arc::clone(&w_round), Arc::clone(&w_done), Arc::clone(&w_stop));
        move || {
            let mut round = 0;
            // Get the node.
            let _ = **shared.load();
            w_done.store(usize::MAX, SeqCst);
            loop {
                spin(
                    || w_round.load(SeqCst) > round || w_stop.load(SeqCst),
                    "W waits for a round",
                );
                if w_stop.load(SeqCst) {
                    break;
                }
                round += 1;
                shared.store(Arc::new(round));
                w_done.store(round, SeqCst);
            }
        }
    });
    spin(|| w_done.load(SeqCst) == usize::MAX, "W gets its node");
    demo_support::set_hook(Some(hook));

    for round in 1..=ROUNDS {
        W_POS.store(0, SeqCst);
        T_POS.store(0, SeqCst);
        W_ALLOWED.store(0, SeqCst);
        // One store == one walk through the list.
        w_round.store(round, SeqCst);
        let shared_t = Arc::clone(&shared);
        spawn("T", move || {
            let _ = **shared_t.load();
        })
        .join()
        .unwrap();
        // The thread is gone, its node cools down. Let the writer finish its walk.
        W_ALLOWED.store(usize::MAX, SeqCst);
        spin(|| w_done.load(SeqCst) == round, "W finishes the store");
    }

    demo_support::set_hook(None);
    w_stop.store(true, SeqCst);
    w.join().unwrap();

    let nodes = ALIGNED_64.load(SeqCst) - before;
    println!("{} sequential threads, 1 writer -> {} nodes", ROUNDS, nodes);
    assert!(
        nodes <= 3,
        "{} nodes for at most 3 threads alive at any time ({} threads created)",
        nodes,
        ROUNDS
    );
}
