//! H8: RwLock<()> strategy ‒ compare_and_swap runs pointee destructors while it holds the write
//! lock. A destructor that reads the same container then deadlocks (or panics, std leaves both
//! open) on the recursive read lock.
//!
//! Run: cargo test --offline --features internal-test-strategies --test h8_rwlock_reenter
#![cfg(feature = "internal-test-strategies")]

use std::sync::atomic::{AtomicUsize, Ordering};
use std::sync::mpsc;
use std::sync::{Arc, Mutex, RwLock};
use std::thread;
use std::time::Duration;

use arc_swap::strategy::DefaultStrategy;
use arc_swap::strategy::{CaS, Strategy};
use arc_swap::ArcSwapAny;

struct Cfg<S: Strategy<Arc<Cfg<S>>>> {
    version: usize,
    /// The container this configuration lives in (set only on the ones we want to observe).
    home: Mutex<Option<Arc<ArcSwapAny<Arc<Cfg<S>>, S>>>>,
    seen_on_drop: Arc<AtomicUsize>,
}

impl<S: Strategy<Arc<Cfg<S>>>> Drop for Cfg<S> {
    fn drop(&mut self) {
        // "Log which version replaced me" ‒ an ordinary read of the container.
        if let Some(home) = self.home.lock().unwrap().take() {
            let current = home.load();
            self.seen_on_drop.store(current.version, Ordering::SeqCst);
        }
    }
}

fn cfg<S: Strategy<Arc<Cfg<S>>>>(
    version: usize,
    home: Option<&Arc<ArcSwapAny<Arc<Cfg<S>>, S>>>,
    seen: &Arc<AtomicUsize>,
) -> Arc<Cfg<S>> {
    Arc::new(Cfg {
        version,
        home: Mutex::new(home.cloned()),
        seen_on_drop: Arc::clone(seen),
    })
}

/// A compare_and_swap that does not match: the rejected `new` value is destroyed by the container.
fn rejected_new<S>() -> Result<usize, &'static str>
where
    S: CaS<Arc<Cfg<S>>> + Default + Send + Sync + 'static,
{
    let (tx, rx) = mpsc::channel();
    thread::spawn(move || {
        let seen = Arc::new(AtomicUsize::new(usize::MAX));
        let shared = Arc::new(ArcSwapAny::<Arc<Cfg<S>>, S>::from(cfg(1, None, &seen)));
        let stale = cfg(0, None, &seen);
        let new = cfg(2, Some(&shared), &seen);
        // `stale` is not what is stored -> nothing is exchanged, `new` is dropped inside.
        let prev = shared.compare_and_swap(&stale, new);
        assert_eq!(prev.version, 1);
        drop(prev);
        let _ = tx.send(seen.load(Ordering::SeqCst));
    });
    rx.recv_timeout(Duration::from_secs(10))
        .map_err(|_| "compare_and_swap did not return within 10s (or panicked)")
}

/// Same thing as it happens in practice: rcu() whose candidate lost the race.
fn rcu_lost_race<S>() -> Result<usize, &'static str>
where
    S: CaS<Arc<Cfg<S>>> + Default + Send + Sync + 'static,
{
    let (tx, rx) = mpsc::channel();
    thread::spawn(move || {
        let seen = Arc::new(AtomicUsize::new(usize::MAX));
        let shared = Arc::new(ArcSwapAny::<Arc<Cfg<S>>, S>::from(cfg(1, None, &seen)));
        let mut first = true;
        shared.rcu(|old| {
            if first {
                first = false;
                // Somebody else gets in between our load and our compare_and_swap.
                shared.store(cfg(10, None, &seen));
            }
            cfg(old.version + 1, Some(&shared), &seen)
        });
        let _ = tx.send(seen.load(Ordering::SeqCst));
    });
    rx.recv_timeout(Duration::from_secs(10))
        .map_err(|_| "rcu did not return within 10s (or panicked)")
}

/// A compare_and_swap given an owned Guard as `current`; the guard is the last owner.
fn owned_current<S>() -> Result<usize, &'static str>
where
    S: CaS<Arc<Cfg<S>>> + Default + Send + Sync + 'static,
{
    let (tx, rx) = mpsc::channel();
    thread::spawn(move || {
        let seen = Arc::new(AtomicUsize::new(usize::MAX));
        let shared = Arc::new(ArcSwapAny::<Arc<Cfg<S>>, S>::from(cfg(3, None, &seen)));
        // The only kind of owned `current` the API takes is a default-strategy Guard, so get one
        // from a neighbour container that shares values with `shared`.
        let other = ArcSwapAny::<Arc<Cfg<S>>, DefaultStrategy>::from(cfg(2, Some(&shared), &seen));
        let guard = other.load();
        drop(other);
        // guard (version 2) is now the last owner; pass it by value, it doesn't match.
        let prev = shared.compare_and_swap(guard, cfg(4, None, &seen));
        assert_eq!(prev.version, 3);
        let _ = tx.send(seen.load(Ordering::SeqCst));
    });
    rx.recv_timeout(Duration::from_secs(10))
        .map_err(|_| "compare_and_swap did not return within 10s (or panicked)")
}

#[test]
fn default_strategy_rejected_new() {
    assert_eq!(rejected_new::<DefaultStrategy>(), Ok(1));
}

#[test]
fn default_strategy_rcu_lost_race() {
    assert_eq!(rcu_lost_race::<DefaultStrategy>(), Ok(10));
}

#[test]
fn default_strategy_owned_current() {
    assert_eq!(owned_current::<DefaultStrategy>(), Ok(3));
}

#[test]
fn rwlock_strategy_rejected_new() {
    assert_eq!(rejected_new::<RwLock<()>>(), Ok(1));
}

#[test]
fn rwlock_strategy_rcu_lost_race() {
    assert_eq!(rcu_lost_race::<RwLock<()>>(), Ok(10));
}

#[test]
fn rwlock_strategy_owned_current() {
    assert_eq!(owned_current::<RwLock<()>>(), Ok(3));
}
