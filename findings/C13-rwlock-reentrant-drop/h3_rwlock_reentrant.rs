#![cfg(feature = "internal-test-strategies")]
use std::sync::{Arc, RwLock, mpsc};
use std::time::Duration;
use arc_swap::ArcSwapAny;

struct Node(Option<Arc<ArcSwapAny<Option<Arc<Node>>, RwLock<()>>>>);
impl Drop for Node {
    fn drop(&mut self) {
        if let Some(c) = &self.0 {
            let _ = c.load();
        }
    }
}

#[test]
fn cas_failure_drops_new_under_write_lock() {
    let (tx, rx) = mpsc::channel();
    std::thread::spawn(move || {
        let c: Arc<ArcSwapAny<Option<Arc<Node>>, RwLock<()>>> = Arc::new(ArcSwapAny::with_strategy(None, RwLock::new(())));
        let wrong = Arc::new(Node(None));
        // current doesn't match -> `new` is destroyed inside compare_and_swap
        let prev = c.compare_and_swap(&Some(wrong), Some(Arc::new(Node(Some(Arc::clone(&c))))));
        drop(prev);
        tx.send(()).unwrap();
    });
    rx.recv_timeout(Duration::from_secs(5)).expect("hang: destructor of `new` ran under the strategy's write lock");
}
