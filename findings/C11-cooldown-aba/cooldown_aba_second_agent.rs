//! check_cooldown() decides on a stale observation: between its `active_writers == 0` load and its
//! `COOLDOWN -> UNUSED` compare-exchange the node can go through a whole
//! UNUSED -> USED -> COOLDOWN cycle (claimed by a short-lived thread that exits again). The
//! compare-exchange then releases the *second* cooldown although a writer that started helping the
//! short-lived owner is still active on the node. A third thread claims the node, starts with a
//! fresh generation counter (it is thread-local, so it restarts at the same first value) and the
//! stale writer's offer is accepted by a transaction it was never meant for.
//!
//! Needs the demo-support pause points (no-ops unless a hook is installed).

use std::sync::atomic::{AtomicBool, Ordering::SeqCst};
use std::sync::Arc;
use std::thread;
use std::time::{Duration, Instant};

use arc_swap::{demo_support, ArcSwap};

struct Gate {
    thread: &'static str,
    point: &'static str,
    armed: AtomicBool,
    arrived: AtomicBool,
    release: AtomicBool,
}

impl Gate {
    const fn new(thread: &'static str, point: &'static str) -> Self {
        Gate {
            thread,
            point,
            armed: AtomicBool::new(true),
            arrived: AtomicBool::new(false),
            release: AtomicBool::new(false),
        }
    }
    /// Waits for the thread to stop there. False if it does not (schedule not reachable).
    fn wait_arrived(&self) -> bool {
        let deadline = Instant::now() + Duration::from_secs(3);
        while !self.arrived.load(SeqCst) {
            if Instant::now() >= deadline {
                println!("{} never stopped at {}", self.thread, self.point);
                return false;
            }
            thread::yield_now();
        }
        true
    }
    fn open(&self) {
        self.release.store(true, SeqCst);
    }
}

fn spin<F: Fn() -> bool>(f: F, who: &str, what: &str) {
    let deadline = Instant::now() + Duration::from_secs(20);
    while !f() {
        assert!(Instant::now() < deadline, "timeout: {} at {}", who, what);
        thread::yield_now();
    }
}

const P_COOLDOWN: &str = "check_cooldown:zero-writers-seen";
const P_PUBLISHED: &str = "fallback:generation-published";
const P_OFFER: &str = "help:before-offer";

static X_COOLDOWN: Gate = Gate::new("X", P_COOLDOWN);
static B_PUBLISHED: Gate = Gate::new("B", P_PUBLISHED);
static W_OFFER: Gate = Gate::new("W", P_OFFER);
static X_PUBLISHED: Gate = Gate::new("X", P_PUBLISHED);

static GATES: [&Gate; 4] = [&X_COOLDOWN, &B_PUBLISHED, &W_OFFER, &X_PUBLISHED];

fn hook(point: &'static str) {
    let current = thread::current();
    let name = match current.name() {
        Some(name) => name,
        None => return,
    };
    for gate in GATES.iter() {
        if gate.thread == name && gate.point == point && gate.armed.swap(false, SeqCst) {
            gate.arrived.store(true, SeqCst);
            spin(|| gate.release.load(SeqCst), name, point);
        }
    }
}

fn spawn<R: Send + 'static, F: FnOnce() -> R + Send + 'static>(
    name: &str,
    f: F,
) -> thread::JoinHandle<R> {
    thread::Builder::new().name(name.to_owned()).spawn(f).unwrap()
}

#[test]
fn load_returns_value_of_another_container() {
    demo_support::set_hook(Some(hook));

    // Two unrelated containers.
    let s = Arc::new(ArcSwap::from_pointee(1usize));
    let s2 = Arc::new(ArcSwap::from_pointee(1000usize));
    // Something to occupy the 8 fast slots with, so the 9th load takes the helping fallback.
    let filler = Arc::new(ArcSwap::from_pointee(0usize));

    // The writer: gets its node first (stays the owner of it for the whole test).
    let w_has_node = Arc::new(AtomicBool::new(false));
    let w_go = Arc::new(AtomicBool::new(false));
    let w = spawn("W", {
        let (s, filler) = (Arc::clone(&s), Arc::clone(&filler));
        let (w_has_node, w_go) = (Arc::clone(&w_has_node), Arc::clone(&w_go));
        move || {
            let _ = **filler.load();
            w_has_node.store(true, SeqCst);
            spin(|| w_go.load(SeqCst), "W", "go");
            s.store(Arc::new(2usize));
        }
    });
    spin(|| w_has_node.load(SeqCst), "main", "W node");

    // A: creates node N (prepended -> head of the list), exits -> N in cooldown #1.
    spawn("A", {
        let filler = Arc::clone(&filler);
        move || {
            let _ = **filler.load();
        }
    })
    .join()
    .unwrap();

    // X: looks for a node, sees N in cooldown with no writers and is about to release it.
    let x = spawn("X", {
        let (s2, filler) = (Arc::clone(&s2), Arc::clone(&filler));
        move || {
            let _guards = (0..8).map(|_| filler.load()).collect::<Vec<_>>();
            // Never stores into s2, nobody does. Must be 1000.
            **s2.load()
        }
    });
    let mut reachable = X_COOLDOWN.wait_arrived();

    // B: releases cooldown #1 itself, claims N and starts a fallback load of `s` (generation 6).
    let b = spawn("B", {
        let (s, filler) = (Arc::clone(&s), Arc::clone(&filler));
        move || {
            let _guards = (0..8).map(|_| filler.load()).collect::<Vec<_>>();
            **s.load()
        }
    });
    reachable = reachable && B_PUBLISHED.wait_arrived();

    // W: stores into `s`, walks N (registers as active writer), sees B's generation for `s`,
    // prepares the replacement and is about to offer it.
    w_go.store(true, SeqCst);
    reachable = reachable && W_OFFER.wait_arrived();

    // B finishes on its own and its thread exits: N in cooldown #2, W still active on it.
    B_PUBLISHED.open();
    let b_val = b.join().unwrap();
    assert!(b_val == 1 || b_val == 2);

    // X continues with its stale decision: releases cooldown #2, claims N, starts a fallback load
    // of `s2` with the very same generation 6.
    X_COOLDOWN.open();
    reachable = reachable && X_PUBLISHED.wait_arrived();

    // W offers the value of `s` into what it believes is still B's transaction.
    W_OFFER.open();
    w.join().unwrap();

    X_PUBLISHED.open();
    if !reachable {
        // Not a failure by itself: the library does not allow this interleaving (any more).
        println!("the schedule is not reachable");
        for gate in GATES.iter() {
            gate.open();
        }
    }
    let x_val = x.join().unwrap();
    demo_support::set_hook(None);

    assert_eq!(2, **s.load());
    assert_eq!(
        1000, x_val,
        "load() of a container that only ever held 1000 returned the value of another container"
    );
}
