//! C12 (container isolation): a reader of container B is handed a value that was only ever stored
//! in container A.
//!
//! Mechanism: `Node::check_cooldown` reads `in_use == COOLDOWN`, then `active_writers == 0`, then
//! does `compare_exchange(COOLDOWN -> UNUSED)`. The compare-exchange only re-validates `in_use`,
//! not `active_writers`, and `in_use` can go COOLDOWN -> UNUSED -> USED -> COOLDOWN in between
//! (ABA). So a node can be released from the cooldown *while a writer is still inside it*, holding
//! a generation it observed from the previous owner. Every thread starts its generation counter at
//! 0, so the next owner's first fallback load uses the very same generation (6) and the stale
//! writer's compare-exchange on the control word succeeds: it hands over a value loaded from ITS
//! container to a reader that is loading from ANOTHER container.
//!
//! Needs the demo-support patch (no-op pause points) to force the schedule.

use std::cell::Cell;
use std::sync::atomic::{AtomicBool, Ordering::SeqCst};
use std::sync::Arc;
use std::thread;
use std::time::{Duration, Instant};

use arc_swap::demo_support::{
    self, CHECK_COOLDOWN_BEFORE_CAS, FALLBACK_AFTER_NEW_HELPING, HELP_BEFORE_CAS,
};
use arc_swap::ArcSwap;

#[derive(Debug)]
struct Val {
    container: &'static str,
    seq: usize,
}

#[derive(Copy, Clone, PartialEq, Debug)]
enum Role {
    None,
    X,
    Y,
    W,
}

thread_local! {
    static ROLE: Cell<Role> = Cell::new(Role::None);
}

static X_AT_CHECK: AtomicBool = AtomicBool::new(false);
static RELEASE_X_CHECK: AtomicBool = AtomicBool::new(false);
static Y_IN_TXN: AtomicBool = AtomicBool::new(false);
static RELEASE_Y: AtomicBool = AtomicBool::new(false);
static W_BEFORE_CAS: AtomicBool = AtomicBool::new(false);
static RELEASE_W: AtomicBool = AtomicBool::new(false);
static X_IN_TXN: AtomicBool = AtomicBool::new(false);
static RELEASE_X_TXN: AtomicBool = AtomicBool::new(false);

fn wait(flag: &AtomicBool, what: &str) {
    let start = Instant::now();
    while !flag.load(SeqCst) {
        if start.elapsed() > Duration::from_secs(30) {
            eprintln!("TIMEOUT waiting for {}", what);
            std::process::abort();
        }
        thread::sleep(Duration::from_millis(1));
    }
}

/// Signal that we arrived, then block until released. One-shot per (role, point).
fn rendezvous(arrived: &AtomicBool, release: &AtomicBool, what: &str) {
    if arrived.swap(true, SeqCst) {
        // Only the first arrival is interesting.
        return;
    }
    eprintln!("  [pause] {}", what);
    wait(release, what);
    eprintln!("  [resume] {}", what);
}

fn hook(point: usize) {
    let role = ROLE.try_with(|r| r.get()).unwrap_or(Role::None);
    match (role, point) {
        (Role::X, CHECK_COOLDOWN_BEFORE_CAS) => rendezvous(
            &X_AT_CHECK,
            &RELEASE_X_CHECK,
            "X: check_cooldown saw COOLDOWN + active_writers == 0, before the CAS to UNUSED",
        ),
        (Role::Y, FALLBACK_AFTER_NEW_HELPING) => rendezvous(
            &Y_IN_TXN,
            &RELEASE_Y,
            "Y: fallback load of A, generation published in control",
        ),
        (Role::W, HELP_BEFORE_CAS) => rendezvous(
            &W_BEFORE_CAS,
            &RELEASE_W,
            "W: store to A, helping the reader of A, replacement loaded from A, before the CAS",
        ),
        (Role::X, FALLBACK_AFTER_NEW_HELPING) => rendezvous(
            &X_IN_TXN,
            &RELEASE_X_TXN,
            "X: fallback load of B, generation published in control",
        ),
        _ => (),
    }
}

#[test]
fn reader_of_b_gets_value_of_a() {
    let a = Arc::new(ArcSwap::from_pointee(Val {
        container: "A",
        seq: 1,
    }));
    let b = Arc::new(ArcSwap::from_pointee(Val {
        container: "B",
        seq: 1,
    }));
    // Just something to take the 8 fast slots from, so the 9th load goes through the fallback
    // (helping) path.
    let d = Arc::new(ArcSwap::from_pointee(Val {
        container: "D",
        seq: 1,
    }));

    // Step 0: a thread that used arc-swap once and exited. Its node N is now in the COOLDOWN
    // state with no writers in it. It is the only node in the global list.
    {
        let d = Arc::clone(&d);
        thread::spawn(move || {
            let _ = d.load();
        })
        .join()
        .unwrap();
    }

    demo_support::set_hook(Some(hook));

    // Step 1: X asks for a node. In check_cooldown(N) it sees COOLDOWN and active_writers == 0
    // and is preempted right before the compare_exchange(COOLDOWN -> UNUSED).
    let x = {
        let (b, d) = (Arc::clone(&b), Arc::clone(&d));
        thread::spawn(move || {
            ROLE.with(|r| r.set(Role::X));
            let fill = (0..8).map(|_| d.load()).collect::<Vec<_>>();
            // 9th guard -> fallback path. This is a load of *B*.
            let got = b.load_full();
            drop(fill);
            got
        })
    };
    wait(&X_AT_CHECK, "X to reach check_cooldown");

    // Step 2: Y asks for a node, moves N COOLDOWN -> UNUSED -> USED (owns N now) and starts a
    // fallback load of A. Y is a fresh thread, so the generation is 4 | GEN_TAG = 6.
    let y = {
        let (a, d) = (Arc::clone(&a), Arc::clone(&d));
        thread::spawn(move || {
            ROLE.with(|r| r.set(Role::Y));
            let fill = (0..8).map(|_| d.load()).collect::<Vec<_>>();
            let got = a.load_full();
            drop(fill);
            got
        })
    };
    wait(&Y_IN_TXN, "Y to open its helping transaction");

    // Step 3: W stores into A. While walking N it sees generation 6 and active_addr == A, so it
    // loads a replacement from A and is preempted right before the compare-exchange on N's
    // control. W is counted in N.active_writers the whole time.
    let w = {
        let a = Arc::clone(&a);
        thread::spawn(move || {
            ROLE.with(|r| r.set(Role::W));
            a.store(Arc::new(Val {
                container: "A",
                seq: 2,
            }));
        })
    };
    wait(&W_BEFORE_CAS, "W to be about to help");

    // Step 4: Y finishes its load and the thread exits: N goes USED -> COOLDOWN. W is still
    // inside N, so N must now stay in the cooldown until W leaves.
    RELEASE_Y.store(true, SeqCst);
    let y_got = y.join().unwrap();
    assert_eq!(y_got.container, "A");

    // Step 5: X resumes. Its compare_exchange(COOLDOWN -> UNUSED) succeeds, because it only
    // looks at in_use. X claims N and starts a fallback load of *B*; X is a fresh thread too, so
    // the generation is 6 again.
    RELEASE_X_CHECK.store(true, SeqCst);
    wait(&X_IN_TXN, "X to open its helping transaction");

    // Step 6: W resumes: compare_exchange(6 | GEN_TAG -> replacement) on N's control succeeds.
    RELEASE_W.store(true, SeqCst);
    w.join().unwrap();

    // Step 7: X finishes its load of B.
    RELEASE_X_TXN.store(true, SeqCst);
    let x_got = x.join().unwrap();

    demo_support::set_hook(None);

    eprintln!("X loaded from B: {:?}", x_got);
    eprintln!("A now holds:     {:?}", a.load());
    eprintln!("B now holds:     {:?}", b.load());
    assert_eq!(
        x_got.container, "B",
        "a load of container B returned a value that was only ever stored in container A: {:?}",
        x_got
    );
    assert_eq!(x_got.seq, 1);
}
