//! Same schedule as cooldown_aba.rs, but A and B have DIFFERENT pointee types: A is ArcSwap<u64>,
//! B is ArcSwap<[u8; 8]>. The load of B returns the Arc<u64> of A reinterpreted as Arc<[u8; 8]>
//! (type confusion; with types of different layout/destructors this is memory unsafety).
//!
//! Mechanism: `Node::check_cooldown` reads `in_use == COOLDOWN`, then `active_writers == 0`, then
//! does `compare_exchange(COOLDOWN -> UNUSED)`. The compare-exchange only re-validates `in_use`,
//! not `active_writers`, and `in_use` can go COOLDOWN -> UNUSED -> USED -> COOLDOWN in between
//! (ABA). So a node can be released from the cooldown *while a writer is still inside it*, holding
//! a generation it observed from the previous owner. Every thread starts its generation counter at
//! 0, so the next owner's first fallback load uses the very same generation (6) and the stale
//! writer's compare-exchange on the control word succeeds: it hands over a value loaded from ITS
//! container to a reader that is loading from ANOTHER container.
//!
//! Needs the demo-support patch (no-op pause points) to force the schedule.

use std::cell::Cell;
use std::sync::atomic::{AtomicBool, Ordering::SeqCst};
use std::sync::Arc;
use std::thread;
use std::time::{Duration, Instant};

use arc_swap::demo_support::{
    self, CHECK_COOLDOWN_BEFORE_CAS, FALLBACK_AFTER_NEW_HELPING, HELP_BEFORE_CAS,
};
use arc_swap::ArcSwap;

#[derive(Copy, Clone, PartialEq, Debug)]
enum Role {
    None,
    X,
    Y,
    W,
}

thread_local! {
    static ROLE: Cell<Role> = Cell::new(Role::None);
}

static X_AT_CHECK: AtomicBool = AtomicBool::new(false);
static RELEASE_X_CHECK: AtomicBool = AtomicBool::new(false);
static Y_IN_TXN: AtomicBool = AtomicBool::new(false);
static RELEASE_Y: AtomicBool = AtomicBool::new(false);
static W_BEFORE_CAS: AtomicBool = AtomicBool::new(false);
static RELEASE_W: AtomicBool = AtomicBool::new(false);
static X_IN_TXN: AtomicBool = AtomicBool::new(false);
static RELEASE_X_TXN: AtomicBool = AtomicBool::new(false);

fn wait(flag: &AtomicBool, what: &str) {
    let start = Instant::now();
    while !flag.load(SeqCst) {
        if start.elapsed() > Duration::from_secs(30) {
            eprintln!("TIMEOUT waiting for {}", what);
            std::process::abort();
        }
        thread::sleep(Duration::from_millis(1));
    }
}

/// Signal that we arrived, then block until released. One-shot per (role, point).
fn rendezvous(arrived: &AtomicBool, release: &AtomicBool, what: &str) {
    if arrived.swap(true, SeqCst) {
        // Only the first arrival is interesting.
        return;
    }
    eprintln!("  [pause] {}", what);
    wait(release, what);
    eprintln!("  [resume] {}", what);
}

fn hook(point: usize) {
    let role = ROLE.try_with(|r| r.get()).unwrap_or(Role::None);
    match (role, point) {
        (Role::X, CHECK_COOLDOWN_BEFORE_CAS) => rendezvous(
            &X_AT_CHECK,
            &RELEASE_X_CHECK,
            "X: check_cooldown saw COOLDOWN + active_writers == 0, before the CAS to UNUSED",
        ),
        (Role::Y, FALLBACK_AFTER_NEW_HELPING) => rendezvous(
            &Y_IN_TXN,
            &RELEASE_Y,
            "Y: fallback load of A, generation published in control",
        ),
        (Role::W, HELP_BEFORE_CAS) => rendezvous(
            &W_BEFORE_CAS,
            &RELEASE_W,
            "W: store to A, helping the reader of A, replacement loaded from A, before the CAS",
        ),
        (Role::X, FALLBACK_AFTER_NEW_HELPING) => rendezvous(
            &X_IN_TXN,
            &RELEASE_X_TXN,
            "X: fallback load of B, generation published in control",
        ),
        _ => (),
    }
}

#[test]
fn reader_of_b_gets_differently_typed_value_of_a() {
    let a: Arc<ArcSwap<u64>> = Arc::new(ArcSwap::from_pointee(u64::from_ne_bytes(*b"aaaaaaaa")));
    let b: Arc<ArcSwap<[u8; 8]>> = Arc::new(ArcSwap::from_pointee(*b"BBBBBBBB"));
    let d = Arc::new(ArcSwap::from_pointee(0usize));

    {
        let d = Arc::clone(&d);
        thread::spawn(move || {
            let _ = d.load();
        })
        .join()
        .unwrap();
    }

    demo_support::set_hook(Some(hook));

    let x = {
        let (b, d) = (Arc::clone(&b), Arc::clone(&d));
        thread::spawn(move || {
            ROLE.with(|r| r.set(Role::X));
            let fill = (0..8).map(|_| d.load()).collect::<Vec<_>>();
            let got: Arc<[u8; 8]> = b.load_full();
            drop(fill);
            got
        })
    };
    wait(&X_AT_CHECK, "X to reach check_cooldown");

    let y = {
        let (a, d) = (Arc::clone(&a), Arc::clone(&d));
        thread::spawn(move || {
            ROLE.with(|r| r.set(Role::Y));
            let fill = (0..8).map(|_| d.load()).collect::<Vec<_>>();
            let got = a.load_full();
            drop(fill);
            got
        })
    };
    wait(&Y_IN_TXN, "Y to open its helping transaction");

    let stored_in_a = Arc::new(u64::from_ne_bytes(*b"AAAAAAAA"));
    let w = {
        let a = Arc::clone(&a);
        let new = Arc::clone(&stored_in_a);
        thread::spawn(move || {
            ROLE.with(|r| r.set(Role::W));
            a.store(new);
        })
    };
    wait(&W_BEFORE_CAS, "W to be about to help");

    RELEASE_Y.store(true, SeqCst);
    let _ = y.join().unwrap();

    RELEASE_X_CHECK.store(true, SeqCst);
    wait(&X_IN_TXN, "X to open its helping transaction");

    RELEASE_W.store(true, SeqCst);
    w.join().unwrap();

    RELEASE_X_TXN.store(true, SeqCst);
    let x_got: Arc<[u8; 8]> = x.join().unwrap();

    demo_support::set_hook(None);

    eprintln!(
        "X loaded from B (ArcSwap<[u8; 8]>): {:?}",
        String::from_utf8_lossy(&*x_got)
    );
    eprintln!(
        "pointer loaded from B {:p}, pointer stored in A {:p}",
        Arc::as_ptr(&x_got),
        Arc::as_ptr(&stored_in_a)
    );
    assert_ne!(
        Arc::as_ptr(&x_got) as usize,
        Arc::as_ptr(&stored_in_a) as usize,
        "the Arc<[u8; 8]> loaded from B is the Arc<u64> stored in A"
    );
    assert_eq!(&*x_got, b"BBBBBBBB");
}
