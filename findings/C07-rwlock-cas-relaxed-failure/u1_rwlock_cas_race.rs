//! U1 finding 1: the `RwLock<()>` strategy's compare_and_swap reads the pointer it returns (and
//! whose reference count it then increments) with a *Relaxed* failure ordering, so nothing orders
//! the creation of that value by a concurrently `swap`ping thread before the increment / the use
//! of the returned handle.
//!
//! Run under Miri (data race detector):
//!
//! MIRIFLAGS="-Zmiri-address-reuse-rate=0 -Zmiri-address-reuse-cross-thread-rate=0 \
//!   -Zmiri-many-seeds=0..16" \
//!   cargo +nightly miri test --offline --features internal-test-strategies \
//!   --test u1_rwlock_cas_race
#![cfg(feature = "internal-test-strategies")]

use std::ptr;
use std::sync::{Arc, RwLock};

use arc_swap::ArcSwapAny;

type Shared = ArcSwapAny<Arc<usize>, RwLock<()>>;

#[test]
fn failed_cas_returns_unsynchronized_value() {
    let s = Arc::new(Shared::with_strategy(Arc::new(0), RwLock::new(())));

    let writer = {
        let s = Arc::clone(&s);
        std::thread::spawn(move || {
            for i in 1..8usize {
                // Fresh value, initialised by this thread, published by the (unlocked) swap.
                let prev = s.swap(Arc::new(i));
                assert!(*prev < 8);
            }
        })
    };

    let cas = {
        let s = Arc::clone(&s);
        std::thread::spawn(move || {
            for _ in 0..8 {
                // `current` never matches => the CaS always fails and acts as a load_full.
                let got = s.compare_and_swap(ptr::null::<usize>(), Arc::new(1000));
                // A handle obtained from the container: must be a fully valid, live value.
                assert!(**got < 8);
            }
        })
    };

    writer.join().unwrap();
    cas.join().unwrap();
}
